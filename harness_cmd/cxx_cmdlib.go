package cmd

import (
	"fmt"
	"os"
	"strings"

	"github.com/evolbioinfo/gotree/io/nexus"
	"github.com/evolbioinfo/gotree/io/phyloxml"
	"github.com/evolbioinfo/gotree/tree"
)

// Thin commands = their library call: the command, run through cobra's Execute
// on an input file, writes exactly the text obtained by applying the library
// operation with the same arguments to the same trees. (The library operations
// themselves are the subject of the zz_vh harnesses; this closes the gap
// between them and the command bodies of package cmd.)

type zzCmdLibCase struct {
	args func() []string                     // command words and options (without -i/-o)
	lib  func(ts []*tree.Tree) (string, bool) // expected text, expected failure
}

var zzThetas = []string{"0", "0.125", "0.5", "0.9", "1.5", "4"}
var zzThetaVals = []float64{0, 0.125, 0.5, 0.9, 1.5, 4}

func zzNewicks(ts []*tree.Tree) string {
	s := ""
	for _, t := range ts {
		s += t.Newick() + "\n"
	}
	return s
}

func zzBoolOpt(args []string, name string, tag string) ([]string, bool) {
	if sxChoose(tag, 2) == 1 {
		return append(args, "--"+name), true
	}
	return args, false
}

func zzCmdLibCases(group int) []zzCmdLibCase {
	var th int
	var root, tips bool
	var a []string
	switch group {
	case 7:
		return []zzCmdLibCase{
			{func() []string {
				th = sxChoose("theta", len(zzThetas))
				a = []string{"collapse", "length", "-l", zzThetas[th]}
				a, root = zzBoolOpt(a, "root", "root")
				a, tips = zzBoolOpt(a, "tips", "tips")
				return a
			}, func(ts []*tree.Tree) (string, bool) {
				for _, t := range ts {
					t.CollapseShortBranches(zzThetaVals[th], root, tips)
				}
				return zzNewicks(ts), false
			}},
			{func() []string {
				th = sxChoose("theta", len(zzThetas))
				a = []string{"collapse", "support", "-s", zzThetas[th]}
				a, root = zzBoolOpt(a, "root", "root")
				return a
			}, func(ts []*tree.Tree) (string, bool) {
				for _, t := range ts {
					t.CollapseLowSupport(zzThetaVals[th], root)
				}
				return zzNewicks(ts), false
			}},
			{func() []string {
				lo, hi := sxChoose("lo", 4), sxChoose("hi", 4)
				th = lo*4 + hi
				a = []string{"collapse", "depth", "-m", fmt.Sprint(lo), "-M", fmt.Sprint(hi)}
				a, root = zzBoolOpt(a, "root", "root")
				a, tips = zzBoolOpt(a, "tips", "tips")
				return a
			}, func(ts []*tree.Tree) (string, bool) {
				for _, t := range ts {
					if t.ReinitIndexes() != nil {
						return "", true
					}
					t.CollapseTopoDepth(th/4, th%4, root, tips)
				}
				return zzNewicks(ts), false
			}},
		}
	case 5:
		var names []string
		var rm, strict bool
		return []zzCmdLibCase{
			{func() []string { return []string{"unroot"} }, func(ts []*tree.Tree) (string, bool) {
				for _, t := range ts {
					t.UnRoot()
				}
				return zzNewicks(ts), false
			}},
			{func() []string { return []string{"rotate", "sort"} }, func(ts []*tree.Tree) (string, bool) {
				for _, t := range ts {
					t.SortNeighborsByTips()
				}
				return zzNewicks(ts), false
			}},
			{func() []string { return []string{"reroot", "midpoint"} }, func(ts []*tree.Tree) (string, bool) {
				out := ""
				for _, t := range ts {
					if t.RerootMidPoint() != nil {
						return out, true
					}
					out += t.Newick() + "\n"
				}
				return out, false
			}},
			{func() []string {
				a = []string{"reroot", "outgroup"}
				a, rm = zzBoolOpt(a, "remove-outgroup", "remove")
				a, strict = zzBoolOpt(a, "strict", "strict")
				names = [][]string{{"a"}, {"a", "b"}, {"a", "c"}, {"d", "e"}, {"a", "zz"}}[sxChoose("outgroup", 5)]
				return append(a, names...)
			}, func(ts []*tree.Tree) (string, bool) {
				out := ""
				for _, t := range ts {
					if t.RerootOutGroup(rm, strict, names...) != nil {
						return out, true
					}
					out += t.Newick() + "\n"
				}
				return out, false
			}},
		}
	case 9:
		cut := []string{"0.5", "0.75", "1"}
		cutv := []float64{0.5, 0.75, 1}
		return []zzCmdLibCase{
			{func() []string {
				th = sxChoose("cutoff", len(cut))
				return []string{"compute", "consensus", "-f", cut[th]}
			}, func(ts []*tree.Tree) (string, bool) {
				ch := make(chan tree.Trees, len(ts))
				for i, t := range ts {
					ch <- tree.Trees{Tree: t, Id: i}
				}
				close(ch)
				c, err := tree.Consensus(ch, cutv[th])
				if err != nil {
					return "", true
				}
				return c.Newick() + "\n", false
			}},
		}
	case 14:
		metrics := []string{"brlen", "boot", "none"}
		mv := []int{tree.DISTANCE_METRIC_BRLEN, tree.DISTANCE_METRIC_BOOTS, tree.DISTANCE_METRIC_NONE}
		return []zzCmdLibCase{
			{func() []string {
				th = sxChoose("metric", len(metrics))
				return []string{"matrix", "-m", metrics[th]}
			}, func(ts []*tree.Tree) (string, bool) {
				out := ""
				for _, t := range ts {
					mat, tps := t.ToDistanceMatrix(mv[th])
					out += fmt.Sprintf("%d\n", len(tps))
					for i, tp := range tps {
						out += tp.Name()
						for j := range tps {
							out += "\t" + fmt.Sprintf("%.12f", mat[i][j])
						}
						out += "\n"
					}
				}
				return out, false
			}},
		}
	case 13:
		var tr bool
		chanOf := func(ts []*tree.Tree) chan tree.Trees {
			ch := make(chan tree.Trees, len(ts))
			for i, t := range ts {
				ch <- tree.Trees{Tree: t, Id: i}
			}
			close(ch)
			return ch
		}
		return []zzCmdLibCase{
			{func() []string { return []string{"reformat", "newick"} }, func(ts []*tree.Tree) (string, bool) {
				return zzNewicks(ts), false
			}},
			{func() []string {
				a = []string{"reformat", "nexus"}
				a, tr = zzBoolOpt(a, "translate", "translate")
				return a
			}, func(ts []*tree.Tree) (string, bool) {
				s, err := nexus.WriteNexus(chanOf(ts), tr)
				return s, err != nil
			}},
			{func() []string { return []string{"reformat", "phyloxml"} }, func(ts []*tree.Tree) (string, bool) {
				s, err := phyloxml.WritePhyloXML(chanOf(ts))
				return s, err != nil
			}},
		}
	case 17:
		return []zzCmdLibCase{
			{func() []string { return []string{"nni"} }, func(ts []*tree.Tree) (string, bool) {
				out := ""
				r := &tree.NNIRearranger{}
				for _, t := range ts {
					var err error
					r.Rearrange(t, func(re tree.Rearrangement) bool {
						if err = re.Apply(); err != nil {
							return false
						}
						out += t.Newick() + "\n"
						err = re.Undo()
						return err == nil
					})
					if err != nil {
						return out, true
					}
				}
				return out, false
			}},
		}
	case 15:
		var nm string
		return []zzCmdLibCase{
			{func() []string {
				nm = []string{"n1", "n2", "a", "nope"}[sxChoose("name", 4)]
				return []string{"subtree", "-n", nm}
			}, func(ts []*tree.Tree) (string, bool) {
				out := ""
				for _, t := range ts {
					nodes, err := t.SelectNodes(nm)
					if err != nil {
						return out, true
					}
					if len(nodes) == 1 && !nodes[0].Tip() {
						out += t.SubTree(nodes[0]).Newick() + "\n"
					}
				}
				return out, false
			}},
		}
	}
	return nil
}

// H_CMD_lib: see the comment at the top of this file; the parameter `group`
// selects the commands of one property (5, 7, 9, 13, 14, 15, 17).
func H_CMD_lib() {
	group := sxParam("group", 7)
	cases := zzCmdLibCases(group)
	c := cases[sxChoose("command", len(cases))]
	saved := zzEffectTrees
	zzEffectTrees = []string{
		"((a:1,b:2)n1:0.5,(c:0.25,d:4)0.4:0.125,e:3);",
		"(((a:1,c:0.125)0.9:1.5,b:0.25)n2:0.75,d:4,e:0);",
		"((a:1,(b:1,c:1)0.5:0)0.9:0.5,(d:1,e:1)n1:1);",
	}
	defer func() { zzEffectTrees = saved }()
	dir, in, out := "", "in", "out"
	if !sxSymbolic() {
		d, e := os.MkdirTemp("", "zzvh")
		if e != nil {
			panic(e)
		}
		defer os.RemoveAll(d)
		dir, in, out = d, d+"/in.nw", d+"/out.txt"
	}
	args := c.args()
	sxDebug("command", strings.Join(args, " "))
	// options first, positional arguments (outgroup names) last
	line := []string{}
	pos := []string{}
	for i, a := range args {
		if i >= 2 && !strings.HasPrefix(a, "-") && !strings.HasPrefix(args[i-1], "-") {
			pos = append(pos, a)
		} else {
			line = append(line, a)
		}
	}
	line = append(line, "-i", in, "-o", out, "--seed=7")
	line = append(line, pos...)
	sxReach("ready")
	got, failed := zzEffectRun(line, dir, false)
	want, wantFail := c.lib(zzEffectInput())
	sxAssert(failed == wantFail, "the command fails exactly when the library call does")
	if !failed && !wantFail {
		sxAssert(got == want, "the command writes what the library call gives")
		sxReach("compared")
	}
	sxReach("checked")
}
