package cmd

// In-package harnesses for the command bodies (overlay: cmd/zz_vh_*.go).
// Under the symbolic executor the I/O helpers of package cmd are replaced by
// the zz_ stubs below (environment = stubs); natively the real helpers run on
// temporary files.

import (
	"errors"
	"fmt"
	goio "io"
	"os"
	"sort"
	"strings"

	"github.com/evolbioinfo/gotree/tree"
)

var zzTrees []*tree.Tree

type zzCloser struct{}

func (zzCloser) Close() error { return nil }

func zz_readTrees(file string) (goio.Closer, <-chan tree.Trees, error) {
	if file == "none" {
		// "none" is the placeholder of an input that was not given: no such file
		return nil, nil, errors.New("open none: no such file or directory")
	}
	if zzErrAt >= 0 {
		return zzReadTreesErr(file)
	}
	ch := make(chan tree.Trees, len(zzTrees)+1)
	for i, t := range zzTrees {
		ch <- tree.Trees{Tree: t, Id: i}
	}
	close(ch)
	return zzCloser{}, ch, nil
}

// the output file of the command bodies under the symbolic executor: writes to
// it are collected in memory (sxOutput)
var zzSinkFile = &os.File{}

func zz_openWriteFile(file string) (*os.File, error) { return zzSinkFile, nil }

func zz_closeWriteFile(f goio.Closer, filename string) {}

func zzStar(name string) *tree.Tree {
	t := tree.NewTree()
	r := t.NewNode()
	t.SetRoot(r)
	for _, s := range []string{name, "x", "y"} {
		n := t.NewNode()
		n.SetName(s)
		t.ConnectNodes(r, n)
	}
	return t
}

// runs f with input trees named T0..T(n-1) and returns the lines it wrote
func zzRunWithTrees(n int, f func() error) ([]string, error) {
	zzTrees = nil
	for i := 0; i < n; i++ {
		zzTrees = append(zzTrees, zzStar(fmt.Sprintf("T%d", i)))
	}
	var out string
	var err error
	if sxSymbolic() {
		intreefile, outtreefile = "in", "out"
		err = f()
		out = sxOutput()
	} else {
		dir, e := os.MkdirTemp("", "zzvh")
		if e != nil {
			panic(e)
		}
		defer os.RemoveAll(dir)
		in := dir + "/in.nw"
		var sb strings.Builder
		for _, t := range zzTrees {
			sb.WriteString(t.Newick() + "\n")
		}
		os.WriteFile(in, []byte(sb.String()), 0o644)
		intreefile, outtreefile = in, dir+"/out.nw"
		treeformat = 0
		err = f()
		b, _ := os.ReadFile(outtreefile)
		out = string(b)
	}
	var lines []string
	for _, l := range strings.Split(out, "\n") {
		if l != "" {
			// (T3,x,y); -> T3
			l = strings.TrimPrefix(l, "(")
			if i := strings.IndexByte(l, ','); i > 0 {
				l = l[:i]
			}
			lines = append(lines, l)
		}
	}
	return lines, err
}

func zzBinom(n, k int) int {
	if k < 0 || k > n {
		return 0
	}
	r := 1
	for i := 0; i < k; i++ {
		r = r * (n - i) / (i + 1)
	}
	return r
}

// H_C20_sample: `gotree sample` draws every subset (without replacement) /
// every tuple (with replacement) with the same probability.
func H_C20_sample() {
	sxOpt("prob", true)
	n := 1 + sxChoose("ntrees", sxParam("maxn", 4))
	k := 1 + sxChoose("nsample", sxParam("maxk", 3))
	replace = sxChoose("replace", 2) == 1
	numtrees = k
	expect := 0
	if replace {
		expect = 1
		for i := 0; i < k; i++ {
			expect *= n
		}
	} else if k >= n {
		expect = 1
	} else {
		expect = zzBinom(n, k)
	}
	sxObserve("class", fmt.Sprintf("n=%d k=%d replace=%v", n, k, replace))
	sxObserve("expect", expect)
	lines, err := zzRunWithTrees(n, func() error { return sampleCmd.RunE(sampleCmd, nil) })
	sxAssert(err == nil, "sample succeeds")
	want := k
	if !replace && n < k {
		want = n
	}
	sxAssert(len(lines) == want, "sample writes the requested number of trees")
	if !replace {
		sort.Strings(lines)
		for i := 1; i < len(lines); i++ {
			sxAssert(lines[i] != lines[i-1], "sampling without replacement never repeats a tree")
		}
	}
	sxObserve("outcome", strings.Join(lines, " "))
}

// H_C20_randomtips: the random tip selection of `gotree prune --random`.
func H_C20_randomtips() {
	sxOpt("prob", true)
	n := 2 + sxChoose("ntips", sxParam("maxn", 4)-1)
	k := 1 + sxChoose("nsample", sxParam("maxk", 3))
	tr, err := tree.StarTree(n)
	sxAssert(err == nil, "StarTree")
	expect := 1
	if k < n {
		expect = zzBinom(n, k)
	}
	sxObserve("class", fmt.Sprintf("n=%d k=%d", n, k))
	sxObserve("expect", expect)
	got := randomTips(tr, k)
	want := k
	if n < k {
		want = n
	}
	sxAssert(len(got) == want, "requested number of tips")
	sort.Strings(got)
	for i := 1; i < len(got); i++ {
		sxAssert(got[i] != got[i-1], "no tip selected twice")
	}
	sxObserve("outcome", strings.Join(got, " "))
}
