package cmd

import (
	"os"
	"sort"
	"strings"

	"github.com/evolbioinfo/gotree/io/newick"
	"github.com/evolbioinfo/gotree/tree"
)

// caterpillar (unrooted) on the given names: (((n0,n1),n2),...,nk-2,nk-1);
func zzCaterpillar(names []string) *tree.Tree {
	s := "(" + names[0] + "," + names[1] + ")"
	for i := 2; i < len(names)-1; i++ {
		s = "(" + s + "," + names[i] + ")"
	}
	s = strings.TrimSuffix(s, ")") + "," + names[len(names)-1] + ");"
	t, err := newick.NewParser(strings.NewReader(s)).Parse()
	if err != nil {
		panic(err)
	}
	return t
}

func zzTipNames(t *tree.Tree) []string {
	var res []string
	for _, tp := range t.Tips() {
		res = append(res, tp.Name())
	}
	sort.Strings(res)
	return res
}

// H_C06_prune_cmd: `gotree prune` on a multi-tree input whose trees have
// different tip sets: every output tree has exactly the requested tips
// (-c: the tips shared with the compared tree, -r -c: the tips absent from it,
// names on the command line: those names removed / kept).
func H_C06_prune_cmd() {
	extras := []string{"x", "y", "z"}
	base := []string{"a", "b", "c", "d"}
	ntrees := 1 + sxChoose("ntrees", sxParam("maxtrees", 2))
	zzTrees = nil
	for i := 0; i < ntrees; i++ {
		names := append([]string{}, base...)
		m := sxChoose(string(rune('A'+i))+"extras", 8)
		for b, e := range extras {
			if m&(1<<uint(b)) != 0 {
				names = append(names, e)
			}
		}
		// the extra tips come first or last in the tree
		if sxChoose(string(rune('A'+i))+"order", 2) == 1 {
			for l, r := 0, len(names)-1; l < r; l, r = l+1, r-1 {
				names[l], names[r] = names[r], names[l]
			}
		}
		zzTrees = append(zzTrees, zzCaterpillar(names))
	}
	mode := sxChoose("mode", 2)
	revert = sxChoose("revert", 2) == 1
	tipfile, randomtips = "none", 0
	var args []string
	inlist := map[string]bool{}
	if mode == 0 {
		// compared tree on a, b, c and x
		zzRefTree = zzCaterpillar([]string{"a", "x", "b", "c"})
		for _, s := range []string{"a", "x", "b", "c"} {
			inlist[s] = true
		}
	} else {
		zzRefTree = nil
		args = []string{"d", "y"}
		inlist["d"], inlist["y"] = true, true
	}
	var want [][]string
	for _, t := range zzTrees {
		var w []string
		for _, s := range zzTipNames(t) {
			// -c keeps the shared tips (removes the specific ones); names: removes the listed ones
			keep := inlist[s]
			if mode == 1 {
				keep = !keep
			}
			if revert {
				keep = !keep
			}
			if keep {
				w = append(w, s)
			}
		}
		// fewer than 3 tips left: refused by RemoveTips with an error, outside this harness
		sxAssume(len(w) >= 3)
		want = append(want, w)
	}
	sxReach("ready")
	var out string
	var err error
	if sxSymbolic() {
		intreefile, outtreefile, intree2file = "in", "out", "none"
		if mode == 0 {
			intree2file = "comp"
		}
		err = pruneCmd.RunE(pruneCmd, args)
		out = sxOutput()
	} else {
		dir, e := os.MkdirTemp("", "zzvh")
		if e != nil {
			panic(e)
		}
		defer os.RemoveAll(dir)
		var sb strings.Builder
		for _, t := range zzTrees {
			sb.WriteString(t.Newick() + "\n")
		}
		os.WriteFile(dir+"/in.nw", []byte(sb.String()), 0o644)
		intreefile, outtreefile, intree2file = dir+"/in.nw", dir+"/out.nw", "none"
		if mode == 0 {
			os.WriteFile(dir+"/comp.nw", []byte(zzRefTree.Newick()+"\n"), 0o644)
			intree2file = dir + "/comp.nw"
		}
		treeformat = 0
		err = pruneCmd.RunE(pruneCmd, args)
		b, _ := os.ReadFile(outtreefile)
		out = string(b)
	}
	sxAssert(err == nil, "prune succeeds")
	var lines []string
	for _, l := range strings.Split(out, "\n") {
		if l != "" {
			lines = append(lines, l)
		}
	}
	sxAssert(len(lines) == ntrees, "one output tree per input tree")
	for i, l := range lines {
		if i >= len(want) {
			break
		}
		t, perr := newick.NewParser(strings.NewReader(l)).Parse()
		sxAssert(perr == nil, "output tree parses")
		if perr != nil {
			continue
		}
		got := zzTipNames(t)
		sxAssert(strings.Join(got, ",") == strings.Join(want[i], ","), "every output tree has exactly the requested tips")
		for _, nd := range t.Nodes() {
			sxAssert(nd.Tip() || nd.Nneigh() >= 3 || (nd == t.Root() && nd.Nneigh() >= 2), "no single-child node left in an output tree")
		}
	}
	sxReach("checked")
}
