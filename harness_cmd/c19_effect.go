package cmd

import (
	"os"
	"strconv"
	"sort"
	"strings"

	"github.com/evolbioinfo/gotree/io/newick"
	"github.com/evolbioinfo/gotree/tree"
	"github.com/spf13/cobra"
	"github.com/spf13/pflag"
)

// commands whose bodies do all their I/O through readTrees / readTree /
// openWriteFile (replaced by in-memory stubs under the symbolic executor)
var zzEffectCmds = []string{
	"gotree brlen clear", "gotree brlen cut", "gotree brlen round", "gotree brlen scale",
	"gotree brlen setmin", "gotree brlen set", "gotree brlen add",
	"gotree collapse length", "gotree collapse support", "gotree collapse depth", "gotree collapse single",
	"gotree comment clear", "gotree support clear", "gotree support round", "gotree support scale",
	"gotree divide", "gotree labels", "gotree matrix", "gotree merge", "gotree prune",
	"gotree reformat newick", "gotree reformat nexus", "gotree reformat phyloxml",
	"gotree reroot midpoint", "gotree resolve", "gotree rotate sort", "gotree stats", "gotree stats edges",
	"gotree stats nodes", "gotree stats tips", "gotree stats rooted", "gotree stats splits", "gotree subtree", "gotree unroot",
	"gotree draw text", "gotree draw svg", "gotree ltt", "gotree graft", "gotree nni", "gotree compute edgetrees",
	"gotree compute consensus", "gotree stats monophyletic", "gotree annotate", "gotree rename",
}

type zzCmdFlag struct {
	c    *cobra.Command
	path string
	flag string
}

func zzEffectPairs() []zzCmdFlag {
	allowed := map[string]bool{}
	only := sxParam("cmdidx", -1)
	for i, p := range zzEffectCmds {
		if only < 0 || only == i {
			allowed[p] = true
		}
	}
	var res []zzCmdFlag
	var walk func(c *cobra.Command, path string)
	walk = func(c *cobra.Command, path string) {
		p := path + c.Name()
		if allowed[p] && (c.Run != nil || c.RunE != nil) {
			c.InheritedFlags() // merges the persistent options of the parents, as parsing does
			var names []string
			c.Flags().VisitAll(func(f *pflag.Flag) { names = append(names, f.Name) })
			sort.Strings(names)
			for _, n := range names {
				res = append(res, zzCmdFlag{c, p, n})
			}
		}
		for _, sub := range c.Commands() {
			walk(sub, p+" ")
		}
	}
	walk(RootCmd, "")
	sort.Slice(res, func(i, j int) bool { return res[i].path+" --"+res[i].flag < res[j].path+" --"+res[j].flag })
	return res
}

// zzEffectTrees: the input of the command runs
var zzEffectTrees = []string{
	"((a:1,b:2)0.9:0.5,(c:0.25,d:4)0.4:0.125,e:3);",
	"(((a:1,c:2)0.3:1.5,b:0.25)0.8:0.75,d:4,e:0.5);",
}

func zzEffectInput() []*tree.Tree {
	var res []*tree.Tree
	for _, s := range zzEffectTrees {
		t, err := newick.NewParser(strings.NewReader(s)).Parse()
		if err != nil {
			panic(err)
		}
		res = append(res, t)
	}
	return res
}

// one run of the command line through cobra's own Execute (parsing, flag
// groups, required flags, argument validation, PersistentPreRun, RunE/Run) on
// fresh input; returns what the command wrote and whether it failed
func zzEffectRun(args []string, dir string, stdinDefault bool) (string, bool) {
	zzTrees = zzEffectInput()
	zzRefTree = zzEffectInput()[len(zzEffectTrees)-1]
	zzErrAt = -1
	RootCmd.SilenceUsage, RootCmd.SilenceErrors = true, true
	RootCmd.SetArgs(args)
	if sxSymbolic() {
		err := RootCmd.Execute()
		return sxOutput(), err != nil
	}
	var sb strings.Builder
	for _, t := range zzTrees {
		sb.WriteString(t.Newick() + "\n")
	}
	os.WriteFile(dir+"/in.nw", []byte(sb.String()), 0o644)
	os.WriteFile(dir+"/ref.nw", []byte(zzRefTree.Newick()+"\n"), 0o644)
	os.Remove(dir + "/out.txt")
	// standard input holds the input trees, standard output goes to a file
	oldIn, oldOut := os.Stdin, os.Stdout
	in, _ := os.Open(dir + "/in.nw")
	so, _ := os.Create(dir + "/stdout.txt")
	os.Stdin, os.Stdout = in, so
	err := RootCmd.Execute()
	os.Stdin, os.Stdout = oldIn, oldOut
	in.Close()
	so.Close()
	b, _ := os.ReadFile(dir + "/out.txt")
	b2, _ := os.ReadFile(dir + "/stdout.txt")
	return string(b) + string(b2), err != nil
}

// H_C19_effect: for the commands listed above and each of their options
// (inherited persistent ones included): running the command body with the
// option left out gives the same output as running it after the option has
// been given explicitly with the default value shown in the help text.
func H_C19_effect() {
	// both runs get --seed=7: draws are a function of the seed and of the calls made
	sxOpt("seeded-rand", true)
	all := zzEffectPairs()
	sxAssert(len(all) > 50 || sxParam("cmdidx", -1) >= 0, "the commands register their options")
	sxObserve("npairs", len(all))
	i := sxParam("pairidx", -1)
	if i < 0 {
		i = sxChoose("pair", len(all))
	}
	ref := all[i]
	sxDebug("pair", ref.path+" --"+ref.flag)
	f := ref.c.Flags().Lookup(ref.flag)
	sxAssert(f != nil, "option registered")
	if t := f.Value.Type(); strings.HasSuffix(t, "Slice") || strings.HasSuffix(t, "Array") {
		sxReach("list-option") // the help text shows [] for an empty list, which is not a value one can pass
		return
	}
	dir := ""
	in, in2, out := "in", "ref", "out"
	if !sxSymbolic() {
		d, e := os.MkdirTemp("", "zzvh")
		if e != nil {
			panic(e)
		}
		defer os.RemoveAll(d)
		dir, in, in2, out = d, d+"/in.nw", d+"/ref.nw", d+"/out.txt"
	}
	// the command line: the command's words, then every option that names an
	// input or output file (other than the option under test) pointed at the
	// stubs / temporary files, then the context options
	args := strings.Fields(ref.path)[1:]
	fileOpt := map[string]string{"input": in, "reftree": in, "ref": in, "compared": in2, "comp": in2, "output": out, "intree": in, "graft": in2}
	var names []string
	ref.c.Flags().VisitAll(func(g *pflag.Flag) { names = append(names, g.Name) })
	sort.Strings(names)
	for _, n := range names {
		if v, ok := fileOpt[n]; ok && n != ref.flag {
			args = append(args, "--"+n+"="+v)
		}
	}
	// context: nothing else given; or one other option given explicitly with its
	// documented default; or one other boolean switched on; or (numctx) one other
	// numeric option at twice its default
	var others, bools, nums []string
	for _, n := range names {
		g := ref.c.Flags().Lookup(n)
		t := g.Value.Type()
		if n == ref.flag || n == "help" || strings.HasSuffix(t, "Slice") || strings.HasSuffix(t, "Array") {
			continue
		}
		if _, isFile := fileOpt[n]; isFile {
			continue
		}
		others = append(others, n)
		if t == "bool" {
			bools = append(bools, n)
		}
		if (t == "int" || t == "float64" || t == "int64") && n != "seed" && n != "threads" {
			nums = append(nums, n)
		}
	}
	ctx := sxChoose("context", 1+len(others)+len(bools))
	switch {
	case ctx == 0:
	case ctx <= len(others):
		g := ref.c.Flags().Lookup(others[ctx-1])
		args = append(args, "--"+g.Name+"="+g.DefValue)
		sxDebug("with", "--"+g.Name+"="+g.DefValue)
	default:
		args = append(args, "--"+bools[ctx-1-len(others)]+"=true")
		sxDebug("with", "--"+bools[ctx-1-len(others)]+"=true")
	}
	if sxParam("numctx", 0) == 1 {
		if k := sxChoose("numcontext", 1+len(nums)); k > 0 {
			g := ref.c.Flags().Lookup(nums[k-1])
			v := "3"
			if x, err := strconv.ParseFloat(g.DefValue, 64); err == nil && x != 0 {
				v = strconv.FormatFloat(2*x, 'f', -1, 64)
			}
			args = append(args, "--"+g.Name+"="+v)
			sxDebug("and", "--"+g.Name+"="+v)
		}
	}
	if ref.flag != "seed" {
		args = append(args, "--seed=7")
	}
	sxReach("pair")
	outA, failA := zzEffectRun(args, dir, f.DefValue == "stdin")
	argsB := append(append([]string{}, args...), "--"+ref.flag+"="+f.DefValue)
	outB, failB := zzEffectRun(argsB, dir, f.DefValue == "stdin")
	if outA != outB {
		sxDebug("outA", outA)
		sxDebug("outB", outB)
	}
	sxAssert(failA == failB, "option omitted = option given with its documented default (success): "+ref.path+" --"+ref.flag)
	sxAssert(outA == outB, "option omitted = option given with its documented default (output): "+ref.path+" --"+ref.flag)
	if !failA && outA != "" {
		sxReach("wrote-output")
	}
	sxReach("checked")
}

// H_C19_prerun: RootCmd.PersistentPreRun (run before every command) ends in the
// same state whether a global option is left out or given explicitly with its
// documented default, whatever the input file is called.
func H_C19_prerun() {
	names := []string{"format", "threads", "seed"}
	name := names[sxChoose("option", len(names))]
	files := []string{"stdin", "trees.nw", "trees.nex", "trees.xml", "trees.json", "trees.nw.gz", "trees.nexus"}
	intreefile = files[sxChoose("inputname", len(files))]
	c := statsCmd
	c.InheritedFlags()
	f := c.Flags().Lookup(name)
	sxAssert(f != nil, "global option visible from a sub-command")
	sxReach("ready")
	seed = 7 // a fixed seed for both runs unless --seed is the option under test
	if name == "seed" {
		seed = -1
	}
	RootCmd.PersistentPreRun(c, nil)
	fmtA, cpusA := treeformat, rootCpus
	sxAssert(c.Flags().Set(name, f.DefValue) == nil, "the documented default is accepted as a value")
	if name != "seed" {
		seed = 7
	}
	RootCmd.PersistentPreRun(c, nil)
	sxAssert(treeformat == fmtA, "input format: option omitted = option given with its documented default")
	sxAssert(rootCpus == cpusA, "threads: option omitted = option given with its documented default")
	sxReach("checked")
}
