package cmd

import (
	"sort"

	"github.com/spf13/cobra"
	"github.com/spf13/pflag"
)

type zzFlagRef struct {
	path string
	f    *pflag.Flag
}

// every (command, option) pair of the CLI, local and persistent, after all
// commands have registered their options
func zzAllFlags() []zzFlagRef {
	var res []zzFlagRef
	var walk func(c *cobra.Command, path string)
	walk = func(c *cobra.Command, path string) {
		p := path + c.Name()
		seen := map[*pflag.Flag]bool{}
		add := func(f *pflag.Flag) {
			if !seen[f] {
				seen[f] = true
				res = append(res, zzFlagRef{p + " --" + f.Name, f})
			}
		}
		c.Flags().VisitAll(add)
		c.PersistentFlags().VisitAll(add)
		for _, sub := range c.Commands() {
			walk(sub, p+" ")
		}
	}
	walk(RootCmd, "")
	sort.Slice(res, func(i, j int) bool { return res[i].path < res[j].path })
	return res
}

// H_C19_defaults: for every command and option, the documented default
// (DefValue, shown by --help) is the value the option's variable actually holds
// when the option is omitted.
func H_C19_defaults() {
	all := zzAllFlags()
	sxAssert(len(all) > 100, "the CLI registers its options")
	sxObserve("npairs", len(all))
	// the pair is a symbolic choice: the solver searches for a violating pair
	// (in chunks of 48: a symbolic index is resolved by case split, at most 64 ways)
	const chunk = 48
	base := chunk * sxChoose("chunk", (len(all)+chunk-1)/chunk)
	i := base + sxInt("pair", 0, chunk-1)
	sxAssume(i < len(all))
	ref := all[i]
	sxReach("pair")
	sxDebug("pair", ref.path)
	if zzNormalised(ref.path) {
		// the command body itself maps the shared variable's value back to the
		// documented default before using it: the option behaves as documented
		sxReach("normalised-by-command")
		return
	}
	sxAssert(ref.f.Value.String() == ref.f.DefValue, "effective default = documented default: "+ref.path)
}

// annotate --compared shares its variable with compare --compared (default
// "none", registered later), but annotate's RunE starts with
// `if intree2file == "none" { intree2file = "stdin" }`, i.e. the documented
// default "stdin" is what the command uses.
func zzNormalised(path string) bool {
	return path == "gotree annotate --compared"
}
