package cmd

import (
	"errors"
	goio "io"
	"os"
	"strings"

	"github.com/evolbioinfo/gotree/tree"
)

var zzRefTree *tree.Tree
var zzErrAt = -1

func zz_readTree(infile string) (*tree.Tree, error) {
	if infile == "none" {
		return nil, errors.New("open none: no such file or directory")
	}
	if zzRefTree == nil {
		return nil, errors.New("no reference tree")
	}
	return zzRefTree, nil
}

// compared trees with an erroneous record at position zzErrAt
func zzReadTreesErr(file string) (goio.Closer, <-chan tree.Trees, error) {
	ch := make(chan tree.Trees, len(zzTrees)+1)
	for i, t := range zzTrees {
		if i == zzErrAt {
			ch <- tree.Trees{Tree: nil, Id: i, Err: errors.New("parse error")}
			break // the real reader stops at the first error
		}
		ch <- tree.Trees{Tree: t, Id: i}
	}
	close(ch)
	return zzCloser{}, ch, nil
}

func zzFour(order string) *tree.Tree {
	// ((a,b),c,d) or ((a,c),b,d)
	t := tree.NewTree()
	r := t.NewNode()
	t.SetRoot(r)
	in := t.NewNode()
	t.ConnectNodes(r, in).SetLength(1)
	for i, s := range strings.Split(order, "") {
		n := t.NewNode()
		n.SetName(s)
		if i < 2 {
			t.ConnectNodes(in, n).SetLength(1)
		} else {
			t.ConnectNodes(r, n).SetLength(2)
		}
	}
	return t
}

// H_C11_comparetrees_cmd: the consumer loops of `gotree compare trees`
// (plain / --binary / --rf / --weighted / --weighted --binary, 1..2 threads):
// when a compared tree carries an error, RunE returns that error - it does
// not hang draining a channel.
func H_C11_comparetrees_cmd() {
	mode := sxChoose("mode", 5)
	comparetreeidentical = mode == 1 || mode == 4
	comparetreerf = mode == 2
	comparetreeweighted = mode >= 3
	compareTips = sxChoose("tips", 2) == 1
	rootCpus = 1 + sxChoose("threads", 2)
	ntrees := 3
	zzErrAt = sxChoose("errat", ntrees+1) - 1
	zzRefTree = zzFour("abcd")
	zzTrees = []*tree.Tree{zzFour("abcd"), zzFour("acbd"), zzFour("abcd")}
	sxOpt("rr-sched", true)
	sxReach("ready")
	var err error
	if sxSymbolic() {
		intreefile, intree2file = "ref", "comp"
		err = compareTreesCmd.RunE(compareTreesCmd, nil)
	} else {
		dir, e := os.MkdirTemp("", "zzvh")
		if e != nil {
			panic(e)
		}
		defer os.RemoveAll(dir)
		os.WriteFile(dir+"/ref.nw", []byte(zzRefTree.Newick()+"\n"), 0o644)
		var sb strings.Builder
		for i, t := range zzTrees {
			if i == zzErrAt {
				sb.WriteString("((a,b;\n") // malformed tree
			} else {
				sb.WriteString(t.Newick() + "\n")
			}
		}
		os.WriteFile(dir+"/comp.nw", []byte(sb.String()), 0o644)
		intreefile, intree2file = dir+"/ref.nw", dir+"/comp.nw"
		treeformat = 0
		err = compareTreesCmd.RunE(compareTreesCmd, nil)
	}
	if zzErrAt >= 0 {
		sxAssert(err != nil, "the error of a malformed compared tree reaches the caller")
	} else {
		sxAssert(err == nil, "valid input is compared without error")
	}
	sxReach("returned")
}
