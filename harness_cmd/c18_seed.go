package cmd

import (
	"math/rand"
)

// H_C18_seed: an explicitly given --seed (anything but the documented -1
// "use the clock" value) is the seed the generator gets, whatever the clock.
func H_C18_seed() {
	vals := []int64{0, 1, 42, -5, 7919, 1 << 40}
	given := vals[sxChoose("seedflag", len(vals))]
	seed = given
	rootInputFormat = "newick"
	RootCmd.PersistentPreRun(RootCmd, nil)
	sxReach("prerun")
	if sxSymbolic() {
		s, fixed := sxSeedUsed()
		sxAssert(fixed, "with an explicit --seed the generator's seed does not depend on the clock")
		sxAssert(s == given, "an explicit --seed is the seed given to the generator")
	} else {
		a := rand.Int63()
		seed = given
		RootCmd.PersistentPreRun(RootCmd, nil)
		b := rand.Int63()
		rand.Seed(given)
		c := rand.Int63()
		sxAssert(a == b, "with an explicit --seed the generator's seed does not depend on the clock")
		sxAssert(a == c, "an explicit --seed is the seed given to the generator")
	}
}
