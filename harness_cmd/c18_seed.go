package cmd

import (
	"math/rand"
	"os"
)

// H_C18_seed: an explicitly given --seed (anything but the documented -1
// "use the clock" value) is the seed the generator gets, whatever the clock.
func H_C18_seed() {
	vals := []int64{0, 1, 42, -5, 7919, 1 << 40}
	given := vals[sxChoose("seedflag", len(vals))]
	seed = given
	rootInputFormat = "newick"
	RootCmd.PersistentPreRun(RootCmd, nil)
	sxReach("prerun")
	if sxSymbolic() {
		s, fixed := sxSeedUsed()
		sxAssert(fixed, "with an explicit --seed the generator's seed does not depend on the clock")
		sxAssert(s == given, "an explicit --seed is the seed given to the generator")
	} else {
		a := rand.Int63()
		seed = given
		RootCmd.PersistentPreRun(RootCmd, nil)
		b := rand.Int63()
		rand.Seed(given)
		c := rand.Int63()
		sxAssert(a == b, "with an explicit --seed the generator's seed does not depend on the clock")
		sxAssert(a == c, "an explicit --seed is the seed given to the generator")
	}
}

// H_C18_cmd_reseed: the commands that draw random numbers, run twice in one
// process through cobra's Execute with the same --seed on the same input,
// write the same text (whatever ran before with another seed).
func H_C18_cmd_reseed() {
	cmds := [][]string{
		{"shuffletips"}, {"rotate", "rand"}, {"sample", "-n", "1"}, {"prune", "--random", "2"},
		{"brlen", "setrand"}, {"support", "setrand"}, {"resolve"},
	}
	k := sxChoose("command", len(cmds))
	sxOpt("seeded-rand", true)
	// one small multifurcating tree: every draw used as an index splits the path
	saved := zzEffectTrees
	zzEffectTrees = []string{"(a:1,b:2,(c:0.25,d:4,e:1)0.4:0.125);"}
	if cmds[k][0] == "sample" {
		// sampling needs several trees to draw at all
		zzEffectTrees = []string{"(a:1,b:2,c:3);", "(a:2,b:3,c:1);", "(a:3,b:1,c:2);"}
	}
	defer func() { zzEffectTrees = saved }()
	dir, in, out := "", "in", "out"
	if !sxSymbolic() {
		d, e := os.MkdirTemp("", "zzvh")
		if e != nil {
			panic(e)
		}
		defer os.RemoveAll(d)
		dir, in, out = d, d+"/in.nw", d+"/out.txt"
	}
	seedv := []string{"7", "0"}[sxChoose("seed", sxParam("nseeds", 1))]
	line := func(c []string, s string) []string {
		return append(append([]string{}, c...), "-i", in, "-o", out, "--seed="+s)
	}
	if sxChoose("usedbefore", 2) == 1 {
		// (a command whose draws are not used as indices: no case split)
		zzEffectRun(line([]string{"brlen", "setrand"}, "99"), dir, false)
	}
	out1, fail1 := zzEffectRun(line(cmds[k], seedv), dir, false)
	sxReach("first")
	out2, fail2 := zzEffectRun(line(cmds[k], seedv), dir, false)
	sxAssert(!fail1 && !fail2, "the command succeeds")
	sxAssert(out1 == out2, "same command line, input and seed: same output when repeated in one process")
	if out1 != "" {
		sxReach("wrote-output")
	}
	sxReach("checked")
}
