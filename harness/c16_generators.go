package zzvh

import (
	"fmt"

	"github.com/evolbioinfo/gotree/tree"
)

func c16names(t *tree.Tree) (map[string]int, bool) {
	names := map[string]int{}
	unique := true
	for _, tp := range t.Tips() {
		names[tp.Name()]++
		if names[tp.Name()] > 1 || tp.Name() == "" {
			unique = false
		}
	}
	return names, unique
}

func cherries(t *tree.Tree) int {
	c := 0
	for _, nd := range t.Nodes() {
		if nd.Tip() {
			continue
		}
		k := 0
		for _, nb := range nd.Neigh() {
			if nb.Tip() {
				k++
			}
		}
		if k >= 2 {
			c++
		}
	}
	return c
}

func c16common(t *tree.Tree, ntips int, rooted bool, what string) {
	sxAssert(wellFormed(t) == "", what+": well-formed")
	sxAssert(enumerationsAgree(t) == "", what+": enumerations agree")
	sxAssert(len(t.Tips()) == ntips, what+": exactly the requested number of tips")
	_, unique := c16names(t)
	sxAssert(unique, what+": tips uniquely named")
	if ntips >= 3 {
		sxAssert(t.Rooted() == rooted, what+": requested rootedness")
		for _, nd := range t.Nodes() {
			if nd.Tip() {
				continue
			}
			want := 3
			if nd == t.Root() && rooted {
				want = 2
			}
			sxAssert(nd.Nneigh() == want, what+": binary")
		}
	}
	for _, e := range t.Edges() {
		sxAssert(e.Length() >= 0, what+": non-negative branch lengths")
	}
	if ntips >= 3 {
		sxAssert(indexAgrees(t) == "", what+": indexes ready for use")
		sxAssert(rankAgrees(t) == "", what+": tip indexes are name ranks")
	}
}

// H_C16_random: the four random generators, every size from 0 upwards, every draw.
func H_C16_random() {
	maxsize := sxParam("maxsize", 6)
	gen := sxChoose("gen", 4)
	rooted := sxChoose("rooted", 2) == 1
	var t *tree.Tree
	var err error
	var ntips, min int
	what := ""
	if gen == 3 {
		depth := sxChoose("depth", sxParam("maxdepth", 3)+1)
		what = fmt.Sprintf("balanced(depth %d)", depth)
		t, err = tree.RandomBalancedBinaryTree(depth, rooted)
		ntips = 1 << uint(depth)
		min = 1
		if depth < min {
			sxAssert(err != nil, "balanced generator: depth below the minimum is rejected with an error")
			sxReach("rejected")
			return
		}
	} else {
		ntips = sxChoose("ntips", maxsize+1)
		min = 2
		if rooted {
			min = 3
		}
		switch gen {
		case 0:
			what = "uniform"
			t, err = tree.RandomUniformBinaryTree(ntips, rooted)
		case 1:
			what = "yule"
			t, err = tree.RandomYuleBinaryTree(ntips, rooted)
		case 2:
			what = "caterpillar"
			t, err = tree.RandomCaterpillarBinaryTree(ntips, rooted)
		}
		if ntips < min {
			sxAssert(err != nil, what+": size below the documented minimum is rejected with an error")
			sxReach("rejected")
			return
		}
	}
	if err != nil {
		// a refusal at the minimum size is not a crash; sizes from 3 tips up must work
		sxAssert(ntips < 3, what+": valid size accepted")
		return
	}
	sxReach("generated")
	c16common(t, ntips, rooted, what)
	if gen == 2 && ntips >= 4 {
		want := 2
		if rooted {
			want = 1
		}
		sxAssert(cherries(t) == want, "caterpillar shape")
	}
	if gen == 3 && rooted {
		// all tips at the same topological depth
		var rec func(nd, p *tree.Node, d int)
		depths := map[int]bool{}
		rec = func(nd, p *tree.Node, d int) {
			if nd.Tip() {
				depths[d] = true
				return
			}
			for _, c := range nd.Neigh() {
				if c != p {
					rec(c, nd, d+1)
				}
			}
		}
		rec(t.Root(), nil, 0)
		sxAssert(len(depths) == 1, "balanced shape")
	}
	sxReach("checked")
}

// H_C16_star: star generator.
func H_C16_star() {
	ntips := sxChoose("ntips", sxParam("maxsize", 6)+1)
	t, err := tree.StarTree(ntips)
	if ntips < 2 {
		sxAssert(err != nil, "star: size below the minimum is rejected with an error")
		return
	}
	sxAssert(err == nil, "star: valid size accepted")
	sxAssert(wellFormed(t) == "", "star: well-formed")
	sxAssert(len(t.Tips()) == ntips, "star: requested number of tips")
	_, unique := c16names(t)
	sxAssert(unique, "star: tips uniquely named")
	if ntips >= 3 {
		sxAssert(len(innerNodes(t)) == 1, "star: a single inner node")
		sxAssert(indexAgrees(t) == "", "star: indexes ready for use")
		sxAssert(rankAgrees(t) == "", "star: tip indexes are name ranks")
	}
	// star with given names (any order): indexes must follow the names
	if ntips >= 3 {
		names := make([]string, ntips)
		off := sxChoose("rotation", ntips)
		for i := range names {
			names[i] = tipName((i + off) % ntips)
		}
		s, err := tree.StarTreeFromName(names...)
		sxAssert(err == nil, "StarTreeFromName succeeds")
		sxAssert(wellFormed(s) == "", "StarTreeFromName: well-formed")
		sxAssert(indexAgrees(s) == "", "StarTreeFromName: indexes ready for use")
		sxAssert(rankAgrees(s) == "", "StarTreeFromName: tip indexes are name ranks")
	}
	sxReach("checked")
}

// H_C16_topologies: AllTopologies returns each labelled binary topology exactly once.
func H_C16_topologies() {
	rooted := sxChoose("rooted", 2) == 1
	// every size from the documented minimum (2 rooted, 3 unrooted) up to n
	min := 3
	if rooted {
		min = 2
	}
	n := min + sxChoose("size", sxParam("n", 5)-min+1)
	names := make([]string, n)
	for i := range names {
		names[i] = tipName(i)
	}
	trees, err := tree.AllTopologies(n, rooted, names...)
	sxAssert(err == nil, "AllTopologies succeeds")
	want := 1
	top := 2*n - 5
	if rooted {
		top = 2*n - 3
	}
	for k := top; k > 1; k -= 2 {
		want *= k
	}
	sxAssert(len(trees) == want, "number of topologies = (2n-5)!! unrooted / (2n-3)!! rooted")
	seen := map[string]bool{}
	for _, t := range trees {
		sxAssert(wellFormed(t) == "", "topology well-formed")
		named := 0
		for _, tp := range t.Tips() {
			if tp.Name() != "" {
				named++
			}
		}
		// (rooted topologies are returned with a root of degree 1 above the first split)
		sxAssert(named == n, "topology has n tips")
		// canonical signature: sorted list of clades below the root (rooted) / splits (unrooted)
		sig := ""
		var keys []uint64
		if rooted {
			var rec func(nd, p *tree.Node) uint64
			rec = func(nd, p *tree.Node) uint64 {
				if nd.Tip() && p != nil {
					return 1 << uint(tipLabel(nd.Name(), nil))
				}
				var m uint64
				for _, c := range nd.Neigh() {
					if c != p {
						m |= rec(c, nd)
					}
				}
				keys = append(keys, m)
				return m
			}
			rec(t.Root(), nil)
		} else {
			for k := range innerSplitSet(t) {
				keys = append(keys, k)
			}
		}
		for i := range keys {
			for j := i + 1; j < len(keys); j++ {
				if keys[j] < keys[i] {
					keys[i], keys[j] = keys[j], keys[i]
				}
			}
		}
		for _, k := range keys {
			sig += fmt.Sprintf("%d,", k)
		}
		sxAssert(!seen[sig], "each topology returned once")
		seen[sig] = true
	}
	sxReach("checked")
}

// H_C16_concurrent: two generator calls running at the same time do not disturb
// each other (no shared scratch state): both results are valid, no data race.
func H_C16_concurrent() {
	gen := sxChoose("gen", 3)
	n := 3 + sxChoose("ntips", sxParam("maxsize", 4)-2)
	sxOpt("rr-sched", true)
	sxOpt("race", true)
	mk := func() (*tree.Tree, error) {
		switch gen {
		case 0:
			return tree.RandomUniformBinaryTree(n, false)
		case 1:
			return tree.RandomYuleBinaryTree(n, false)
		}
		return tree.RandomCaterpillarBinaryTree(n, false)
	}
	done := make(chan bool)
	var t1 *tree.Tree
	var e1 error
	go func() {
		t1, e1 = mk()
		done <- true
	}()
	t2, e2 := mk()
	<-done
	sxAssert(e1 == nil && e2 == nil, "both concurrent generator calls succeed")
	sxReach("generated")
	c16common(t1, n, false, "first of two concurrent calls")
	c16common(t2, n, false, "second of two concurrent calls")
	sxReach("checked")
}
