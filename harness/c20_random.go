package zzvh

import (
	"fmt"
	"sort"
	"strings"

	"github.com/evolbioinfo/gotree/tree"
)

func fact(n int) int {
	r := 1
	for i := 2; i <= n; i++ {
		r *= i
	}
	return r
}

// H_C20_shuffle: ShuffleTips gives every assignment of the names to the tips the same probability.
func H_C20_shuffle() {
	sxOpt("prob", true)
	n := 2 + sxChoose("ntips", sxParam("maxn", 4)-1)
	t, err := tree.StarTree(n)
	sxAssert(err == nil, "StarTree")
	sxObserve("class", fmt.Sprintf("n=%d", n))
	sxObserve("expect", fact(n))
	t.ShuffleTips()
	var names []string
	for _, tp := range t.Tips() {
		names = append(names, tp.Name())
	}
	sxObserve("outcome", strings.Join(names, " "))
}

// H_C20_rotate: RotateNeighbors gives every order of the neighbours the same probability.
func H_C20_rotate() {
	sxOpt("prob", true)
	n := 2 + sxChoose("degree", sxParam("maxn", 4)-1)
	t, err := tree.StarTree(n)
	sxAssert(err == nil, "StarTree")
	sxObserve("class", fmt.Sprintf("degree=%d", n))
	sxObserve("expect", fact(n))
	t.Root().RotateNeighbors()
	var names []string
	for _, nb := range t.Root().Neigh() {
		names = append(names, nb.Name())
	}
	sxObserve("outcome", strings.Join(names, " "))
}

// H_C20_uniformtree: RandomUniformBinaryTree draws every labelled binary topology with the same probability.
func H_C20_uniformtree() {
	sxOpt("prob", true)
	n := 3 + sxChoose("ntips", sxParam("maxn", 5)-2)
	rooted := sxParam("rooted", 0) == 1
	t, err := tree.RandomUniformBinaryTree(n, rooted)
	sxAssert(err == nil, "RandomUniformBinaryTree succeeds")
	expect := 1
	top := 2*n - 5
	if rooted {
		top = 2*n - 3
	}
	for k := top; k > 1; k -= 2 {
		expect *= k
	}
	sxObserve("class", fmt.Sprintf("n=%d rooted=%v", n, rooted))
	sxObserve("expect", expect)
	// canonical description: sorted clades below the root (rooted) / sorted splits (unrooted);
	// generator tips are named Tip0..Tip(n-1)
	label := func(name string) uint { return uint(name[len(name)-1] - '0') }
	var keys []int
	var full uint64 = 1<<uint(n) - 1
	var rec func(nd, p *tree.Node) uint64
	rec = func(nd, p *tree.Node) uint64 {
		if nd.Tip() {
			return 1 << label(nd.Name())
		}
		var m uint64
		for _, c := range nd.Neigh() {
			if c != p {
				m |= rec(c, nd)
			}
		}
		if p != nil {
			if rooted {
				keys = append(keys, int(m))
			} else {
				keys = append(keys, int(canonMask(m, full)))
			}
		}
		return m
	}
	rec(t.Root(), nil)
	sort.Ints(keys)
	sxObserve("outcome", fmt.Sprint(keys))
}
