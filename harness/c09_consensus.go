package zzvh

import (
	"fmt"

	"github.com/evolbioinfo/gotree/tree"
)

var c09cutoffs = []float64{0.5, 1.0, 2.0 / 3.0, 0.6, 0.75, 0.9}

type c09freq struct {
	count int
	sum   float64
	tip   bool
}

// H_C09_consensus: the consensus contains exactly the splits with frequency
// > cutoff or present in every tree; support = frequency, length = mean.
func H_C09_consensus() {
	n := sxParam("n", 4)
	m := sxParam("m", 2)
	rootedMode := sxParam("rootedmode", 0)
	binary := sxParam("binary", 0) == 1
	cutoff := c09cutoffs[sxChoose("cutoff", sxParam("ncutoffs", len(c09cutoffs)))]
	trees := make([]*tree.Tree, m)
	table := map[uint64]*c09freq{}
	for i := 0; i < m; i++ {
		t := genTree(n, rootedMode, binary)
		for j, e := range t.Edges() {
			l := sxLen(fmt.Sprintf("len%d_%d", i, j))
			sxAssume(l >= 0)
			e.SetLength(l)
		}
		trees[i] = t
		for k, s := range splitsOf(t, lenAll) {
			f := table[k]
			if f == nil {
				f = &c09freq{tip: s.tip}
				table[k] = f
			}
			f.count++
			f.sum += s.length
		}
	}
	ch := make(chan tree.Trees, m)
	for i, t := range trees {
		ch <- tree.Trees{Tree: t, Id: i}
	}
	close(ch)
	sxReach("ready")

	cons, err := tree.Consensus(ch, cutoff)

	sxAssert(err == nil, "Consensus succeeds on trees with the same taxa")
	if err != nil {
		return
	}
	sxAssert(wellFormed(cons) == "", "consensus is well-formed")
	sxAssert(tipSet(cons) == uint64(1)<<uint(n)-1, "consensus has exactly the input taxa")
	got := splitsOf(cons, lenAny0)
	for k, f := range table {
		g, ok := got[k]
		if f.tip {
			sxAssert(ok, "tip branch present")
			if ok {
				sxAssert(g.edge.Length() == f.sum/float64(f.count), "tip branch carries its mean length")
			}
			continue
		}
		keep := float64(f.count)/float64(m) > cutoff || f.count == m
		sxAssert(ok == keep, "split kept iff frequency > cutoff or in every tree")
		if ok && keep {
			sxAssert(g.nbr == 1, "one branch per split in the consensus")
			sxAssert(g.edge.Support() == float64(f.count)/float64(m), "support = frequency")
			sxAssert(g.edge.Length() == f.sum/float64(f.count), "length = mean over the trees containing the split")
			sxReach("kept-split")
		}
	}
	for k, g := range got {
		if g.tip {
			continue
		}
		_, ok := table[k]
		sxAssert(ok, "no split that occurs in no input tree")
	}
	sxReach("checked")
}

// H_C09_reject: cut-offs outside [0.5,1] and collections with a differing taxon are rejected.
func H_C09_reject() {
	n := sxParam("n", 4)
	t1 := genTree(n, 0, false)
	t2 := genTree(n, 0, false)
	bad := sxChoose("bad", 4)
	cutoff := 0.5
	switch bad {
	case 0:
		cutoff = 0.49
	case 1:
		cutoff = 1.01
	case 2:
		tips := t2.Tips()
		// a foreign name that sorts after, or before, every taxon of the first tree
		tips[sxChoose("renamed", len(tips))].SetName([]string{"zz_other", "a_other", "t1x"}[sxChoose("foreign", 3)])
	case 3:
		// the second tree lacks one taxon
		sxAssume(n >= 4)
		sxAssert(t2.RemoveTips(false, tipName(sxChoose("removed", n))) == nil, "RemoveTips")
	}
	ch := make(chan tree.Trees, 2)
	ch <- tree.Trees{Tree: t1, Id: 0}
	ch <- tree.Trees{Tree: t2, Id: 1}
	close(ch)
	sxReach("ready")
	_, err := tree.Consensus(ch, cutoff)
	sxAssert(err != nil, "rejected with an error")
	sxReach("checked")
}
