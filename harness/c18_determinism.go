package zzvh

import (
	"fmt"
	"math/rand"
	"sort"
	"strings"

	"github.com/evolbioinfo/goalign/align"
	"github.com/evolbioinfo/gotree/acr"
	"github.com/evolbioinfo/gotree/asr"
	"github.com/evolbioinfo/gotree/io/nexus"
	"github.com/evolbioinfo/gotree/tree"
)

func c18states(m map[string]string) string {
	var ks []string
	for k := range m {
		ks = append(ks, k)
	}
	sort.Strings(ks)
	s := ""
	for _, k := range ks {
		s += k + "=" + m[k] + ";"
	}
	return s
}

// H_C18_maporder: library calls that range over Go maps, explored under EVERY
// iteration order of every map range (the order a seed does not fix): the
// output must be the same on all of them.
func H_C18_maporder() {
	n := sxParam("n", 4)
	op := sxChoose("call", 8)
	shapeCode = sxParam("shape", 1)
	t := genTree(n, sxParam("rootedmode", 0), false)
	shapeCode = -1
	for i, e := range t.Edges() {
		e.SetLength(float64(i) + 0.5)
	}
	sxOpt("nondet-map", true)
	out, sub := "", ""
	if sxParam("allorders", 0) == 1 {
		sxOpt("nondet-map-all", true)
	}
	switch op {
	case 0:
		// renaming with a map whose entries chain (a->b, b->c)
		m := map[string]string{"t0": "t1", "t1": "t2", "t2": "zz"}
		err := t.Rename(m)
		out = fmt.Sprint(err == nil) + " " + t.Newick()
	case 1:
		m := map[string]string{"t0": "x0", "t1": "x1", "t3": "x3"}
		err := t.Rename(m)
		out = fmt.Sprint(err == nil) + " " + t.Newick()
	case 2:
		chars := map[string]string{}
		for i := 0; i < n; i++ {
			chars[tipName(i)] = c12alphabet[i%3]
		}
		states, steps, err := acr.ParsimonyAcr(t, chars, acr.ALGO_DOWNPASS, false)
		out = fmt.Sprint(err == nil, steps) + " " + c18states(states) + " " + t.Newick()
	case 3:
		t2 := t.Clone()
		ch := make(chan tree.Trees, 2)
		ch <- tree.Trees{Tree: t, Id: 0}
		ch <- tree.Trees{Tree: t2, Id: 1}
		close(ch)
		tr := sxChoose("translate", 2) == 1
		sub = fmt.Sprint(" translate=", tr)
		s, err := nexus.WriteNexus(ch, tr)
		out = fmt.Sprint(err == nil) + " " + s
	case 4:
		rv := sxChoose("revert", 2) == 1
		sub = fmt.Sprint(" revert=", rv)
		err := t.RemoveTips(rv, "t0", "t2", "zz")
		out = fmt.Sprint(err == nil) + " " + t.Newick()
	case 5:
		err := t.ReinitIndexes()
		s := ""
		for _, e := range t.Edges() {
			s += e.DumpBitSet() + "|"
		}
		out = fmt.Sprint(err == nil) + " " + s
	case 7:
		// consensus of three trees on 5 taxa with two kept splits: the text must
		// not depend on anything that changes from process to process (hash seeds)
		sxOptN("tax-hash-bits", 1)
		var ts []*tree.Tree
		for i := 0; i < 3; i++ {
			// two disjoint cherries: the order in which the two splits are added
			// to the star tree decides the child order of the consensus
			tr, err := parseNewick("((t0:1,t1:1):1,t2:1,(t3:1,t4:1):1);")
			sxAssert(err == nil, "parse")
			ts = append(ts, tr)
		}
		cons, err := tree.Consensus(treesChan(ts), 0.5)
		if err == nil {
			out = cons.Newick()
		} else {
			out = "error"
		}
	case 6:
		t2 := t.Clone()
		t2.RotateInternalNodes()
		e1 := t.ReinitIndexes()
		e2 := t2.ReinitIndexes()
		err := t.CompareTipIndexes(t2)
		out = fmt.Sprint(e1 == nil, e2 == nil, err == nil)
	}
	sxObserve("class", fmt.Sprintf("call=%d", op)+sub+strings.Repeat(" ", 0))
	sxObserve("outcome", out)
}

// one randomised library call on fresh inputs; the text it produces
func c18randomCall(op, n int) string {
	switch op {
	case 0, 1, 2:
		// sequence reconstruction with random resolution of ambiguous states
		shapeCode = 0
		t := genTree(3, 0, false)
		shapeCode = -1
		a := align.NewAlign(align.NUCLEOTIDS)
		for i, tp := range t.Tips() {
			sxAssert(a.AddSequence(tp.Name(), []string{"AC", "CA", "GG"}[i%3], "") == nil, "AddSequence")
		}
		algo := []int{asr.ALGO_DOWNPASS, asr.ALGO_DELTRAN, asr.ALGO_ACCTRAN}[op]
		nsteps, err := asr.ParsimonyAsr(t, a, algo, true)
		return fmt.Sprint(err == nil, nsteps) + " " + t.Newick()
	case 3:
		shapeCode = 1
		t := genTree(n, 0, false)
		shapeCode = -1
		chars := map[string]string{}
		for i := 0; i < n; i++ {
			chars[tipName(i)] = c12alphabet[i%3]
		}
		states, steps, err := acr.ParsimonyAcr(t, chars, acr.ALGO_DOWNPASS, true)
		return fmt.Sprint(err == nil, steps) + " " + c18states(states) + " " + t.Newick()
	case 4:
		shapeCode = 1
		t := genTree(n, 0, false)
		shapeCode = -1
		t.RotateInternalNodes()
		return t.Newick()
	case 5:
		shapeCode = 1
		t := genTree(n, 0, false)
		shapeCode = -1
		t.ShuffleTips()
		return t.Newick()
	case 6:
		shapeCode = 0
		t := genTree(n, 0, false) // the star: Resolve draws the grouping order
		shapeCode = -1
		t.Resolve()
		return t.Newick()
	case 7:
		t, err := tree.RandomYuleBinaryTree(n, false)
		if err != nil {
			return "error"
		}
		return t.Newick()
	case 8:
		t, err := tree.RandomUniformBinaryTree(n, true)
		if err != nil {
			return "error"
		}
		return t.Newick()
	case 9:
		t, err := tree.RandomCaterpillarBinaryTree(n, false)
		if err != nil {
			return "error"
		}
		return t.Newick()
	}
	t, err := tree.RandomBalancedBinaryTree(2, true)
	if err != nil {
		return "error"
	}
	return t.Newick()
}

const c18nrandom = 11

// H_C18_reseed: a randomised library call repeated in the same process after
// seeding the generator again with the same seed gives the same text: the
// result is a function of input, options and seed, not of what ran before.
func H_C18_reseed() {
	n := sxParam("n", 4)
	op := sxChoose("call", c18nrandom)
	sxOpt("seeded-rand", true)
	seed := int64(sxU64("seed"))
	// something else may have run before and used the generator
	if sxChoose("usedbefore", 2) == 1 {
		rand.Seed(seed + 1)
		c18randomCall((op+4)%c18nrandom, n)
	}
	rand.Seed(seed)
	out1 := c18randomCall(op, n)
	sxReach("first")
	rand.Seed(seed)
	out2 := c18randomCall(op, n)
	sxAssert(out1 == out2, "same input, options and seed: same output when repeated in one process")
	sxReach("checked")
}
