package zzvh

import (
	"math"

	"github.com/evolbioinfo/gotree/tree"
)

// sameTreeUpToRooting: tip set, split set with (series-merged) lengths,
// supports of branches that are single on both sides, all path lengths.
func c05same(t *tree.Tree, n int, before map[uint64]*splitInfo, dbefore [][]float64, tipsBefore uint64, supports bool, what string) {
	sxAssert(wellFormed(t) == "", "well-formed after "+what)
	sxAssert(tipSet(t) == tipsBefore, "tip set unchanged by "+what)
	sxAssert(len(t.Tips()) == popcount(tipsBefore), "tips not duplicated by "+what)
	after := splitsOf(t, lenAny0)
	sxAssert(len(after) == len(before), "same number of splits after "+what)
	for k, b := range before {
		a, ok := after[k]
		sxAssert(ok, "split kept by "+what)
		if !ok {
			continue
		}
		sxAssert(a.length == b.length, "split keeps its length through "+what)
		if supports && !b.tip && b.nbr == 1 && a.nbr == 1 {
			sxAssert(a.support == b.support, "untouched branch keeps its support through "+what)
		}
	}
	dafter := distOf(t, n, lenMetric0)
	for i := 0; i < n; i++ {
		for j := i + 1; j < n; j++ {
			sxAssert(dafter[i][j] == dbefore[i][j], "path length unchanged by "+what)
		}
	}
}

func innerNodes(t *tree.Tree) []*tree.Node {
	var in []*tree.Node
	for _, nd := range t.Nodes() {
		if !nd.Tip() {
			in = append(in, nd)
		}
	}
	return in
}

// H_C05_reroot: Reroot at every inner node.
func H_C05_reroot() {
	n := sxParam("n", 4)
	t := genTree(n, 2, false)
	decorate(t, lenAll, supAny)
	in := innerNodes(t)
	nr := in[sxChoose("newroot", len(in))]
	before := splitsOf(t, lenAny0)
	dbefore := distOf(t, n, lenMetric0)
	tips := tipSet(t)
	sxReach("ready")
	err := t.Reroot(nr)
	sxAssert(err == nil, "Reroot at an inner node succeeds")
	sxAssert(t.Root() == nr, "the requested node is the root")
	c05same(t, n, before, dbefore, tips, true, "Reroot")
	sxReach("checked")
}

// H_C05_unroot: UnRoot of a rooted tree (no-op on an unrooted one).
func H_C05_unroot() {
	n := sxParam("n", 4)
	t := genTree(n, 2, false)
	decorate(t, lenAll, supAny)
	before := splitsOf(t, lenAny0)
	dbefore := distOf(t, n, lenMetric0)
	tips := tipSet(t)
	sxReach("ready")
	t.UnRoot()
	sxAssert(!t.Rooted(), "unrooted after UnRoot")
	c05same(t, n, before, dbefore, tips, true, "UnRoot")
	sxAssert(!hasSingleNode(t), "UnRoot leaves no single-child node")
	sxReach("checked")
}

// H_C05_reorder: RotateInternalNodes (all draws) and SortNeighborsByTips.
func H_C05_reorder() {
	n := sxParam("n", 4)
	t := genTree(n, 2, false)
	decorate(t, lenAll, supAny)
	before := splitsOf(t, lenAny0)
	dbefore := distOf(t, n, lenMetric0)
	tips := tipSet(t)
	rootBefore := t.Root()
	sxReach("ready")
	if sxChoose("op", 2) == 0 {
		t.RotateInternalNodes()
		c05same(t, n, before, dbefore, tips, true, "RotateInternalNodes")
	} else {
		t.SortNeighborsByTips()
		c05same(t, n, before, dbefore, tips, true, "SortNeighborsByTips")
	}
	sxAssert(t.Root() == rootBefore, "reordering keeps the root")
	sxReach("checked")
}

// H_C05_outgroup: RerootOutGroup(remove, strict, S) for every tip subset.
func H_C05_outgroup() {
	n := sxParam("n", 4)
	t := genTree(n, 2, sxParam("binary", 0) == 1)
	decorate(t, lenAll, supAny)
	full := uint64(1)<<uint(n) - 1
	sub := uint64(sxChoose("outgroup", 1<<uint(n)))
	remove, strict, absent := false, true, false
	if sxParam("strictonly", 0) == 0 {
		remove = sxChoose("remove", 2) == 1
		strict = sxChoose("strict", 2) == 1
		absent = sxChoose("absentname", 2) == 1
	}
	var names []string
	if absent {
		names = append(names, "zz_not_in_tree")
	}
	for i := 0; i < n; i++ {
		if sub&(1<<uint(i)) != 0 {
			names = append(names, tipName(i))
		}
	}
	before := splitsOf(t, lenAny0)
	dbefore := distOf(t, n, lenMetric0)
	tips := tipSet(t)
	// is the outgroup one side of a split (a clade or the complement of one)?
	var sepLen float64
	_, isSide := before[canonMask(sub, full)]
	if isSide {
		sepLen = before[canonMask(sub, full)].length
	}
	sxReach("ready")

	err := t.RerootOutGroup(remove, strict, names...)

	if sub == 0 || sub == full {
		sxAssert(err != nil, "empty / complete outgroup is refused")
		return
	}
	if !isSide {
		if strict {
			sxAssert(err != nil, "non-monophyletic outgroup refused in strict mode")
			sxReach("strict-refused")
			return
		}
		if err != nil {
			return
		}
		sxAssert(wellFormed(t) == "", "well-formed after RerootOutGroup (non-monophyletic)")
		if !remove {
			sxAssert(t.Rooted(), "rooted after RerootOutGroup")
			inOne := false
			r := t.Root()
			for _, c := range r.Neigh() {
				m := maskBelow(c, r, nil)
				if sub&^m == 0 {
					inOne = true
				}
			}
			sxAssert(inOne, "non-monophyletic outgroup ends up inside one root clade")
			c05same(t, n, before, dbefore, tips, false, "RerootOutGroup (non-monophyletic)")
			sxReach("nonmono-ok")
		}
		return
	}
	if err != nil {
		return
	}
	sxReach("side-success")
	if remove {
		rest := full &^ sub
		sxAssert(wellFormed(t) == "", "well-formed after RerootOutGroup with removal")
		sxAssert(tipSet(t) == rest, "outgroup absent, all other tips present")
		sxAssert(len(t.Tips()) == popcount(rest), "no duplicated tip after removal")
		dafter := distOf(t, n, lenMetric0)
		for i := 0; i < n; i++ {
			for j := i + 1; j < n; j++ {
				if rest&(1<<uint(i)) != 0 && rest&(1<<uint(j)) != 0 {
					sxAssert(dafter[i][j] == dbefore[i][j], "path lengths of the rest unchanged by outgroup removal")
				}
			}
		}
		after := splitsOf(t, lenNone)
		if popcount(rest) >= 2 {
			for k := range before {
				r := canonMask(k&rest, rest)
				if popcount(r) >= 2 && popcount(rest&^r) >= 2 {
					_, ok := after[r]
					sxAssert(ok, "splits of the rest kept by outgroup removal")
				}
			}
			for k, a := range after {
				if a.tip {
					continue
				}
				found := false
				for kb := range before {
					if canonMask(kb&rest, rest) == k {
						found = true
					}
				}
				sxAssert(found, "no split invented by outgroup removal")
			}
		}
		sxReach("removed")
		return
	}
	sxAssert(t.Rooted(), "rooted after RerootOutGroup")
	r := t.Root()
	if r.Nneigh() == 2 {
		m0 := maskBelow(r.Neigh()[0], r, nil)
		m1 := maskBelow(r.Neigh()[1], r, nil)
		sxAssert((m0 == sub && m1 == full&^sub) || (m1 == sub && m0 == full&^sub), "outgroup is exactly one of the two root clades")
		l0 := math.Max(0, r.Edges()[0].Length())
		l1 := math.Max(0, r.Edges()[1].Length())
		sxAssert(l0 == l1, "separating branch cut into two equal halves")
		sxAssert(l0+l1 == sepLen, "the halves add up to the separating branch")
	}
	c05same(t, n, before, dbefore, tips, false, "RerootOutGroup")
	sxReach("checked")
}

// H_C05_midpoint: RerootMidPoint puts the root halfway along a longest path.
func H_C05_midpoint() {
	n := sxParam("n", 4)
	t := genTree(n, 2, false)
	decorate(t, lenAll, supNone)
	before := splitsOf(t, lenAny0)
	dbefore := distOf(t, n, lenMetric0)
	tips := tipSet(t)
	sxReach("ready")
	if !sxSymbolic() {
		sxDebug("before", t.Newick())
	}
	err := t.RerootMidPoint()
	if !sxSymbolic() {
		sxDebug("after", t.Newick())
	}
	// every branch has a length: midpoint rooting has no reason to refuse
	sxAssert(err == nil, "RerootMidPoint succeeds on a tree whose branches all have a length")
	if err != nil {
		return
	}
	sxAssert(t.Rooted(), "rooted after RerootMidPoint")
	c05same(t, n, before, dbefore, tips, false, "RerootMidPoint")
	// diameter
	diam := 0.0
	for i := 0; i < n; i++ {
		for j := i + 1; j < n; j++ {
			diam = math.Max(diam, dbefore[i][j])
		}
	}
	r := t.Root()
	if r.Nneigh() == 2 {
		var deep [2]float64
		for c := 0; c < 2; c++ {
			deep[c] = maxDepth(r.Neigh()[c], r, math.Max(0, r.Edges()[c].Length()))
		}
		sxAssert(deep[0] == deep[1], "the deepest tips of the two root clades are equally far from the root")
		sxAssert(deep[0]+deep[1] == diam, "the root lies on a longest tip-to-tip path")
	}
	sxReach("checked")
}

func maxDepth(nd, parent *tree.Node, acc float64) float64 {
	if nd.Tip() {
		return acc
	}
	best := 0.0
	first := true
	for i, c := range nd.Neigh() {
		if c == parent {
			continue
		}
		d := maxDepth(c, nd, acc+math.Max(0, nd.Edges()[i].Length()))
		if first {
			best = d
			first = false
		} else {
			best = math.Max(best, d)
		}
	}
	return best
}
