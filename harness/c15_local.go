package zzvh

import (
	"fmt"

	"github.com/evolbioinfo/gotree/tree"
)

// distAll: path lengths between all tips, keyed by name (absent length counts 0).
func distByName(t *tree.Tree) map[string]float64 {
	res := map[string]float64{}
	for _, tip := range t.Tips() {
		if tip.Name() == "" {
			continue // a root with a single neighbour is not a tip
		}
		var rec func(cur, prev *tree.Node, acc float64)
		rec = func(cur, prev *tree.Node, acc float64) {
			if cur.Tip() && cur != tip && cur.Name() != "" {
				res[tip.Name()+"|"+cur.Name()] = acc
				return
			}
			for i, nb := range cur.Neigh() {
				if nb != prev {
					rec(nb, cur, acc+lenMetric0(cur.Edges()[i]))
				}
			}
		}
		rec(tip, nil, 0)
	}
	return res
}

func tipNameSet(t *tree.Tree) map[string]int {
	res := map[string]int{}
	for _, tp := range t.Tips() {
		res[tp.Name()]++
	}
	return res
}

func c15old(before, after map[string]float64, what string) {
	for k, d := range before {
		a, ok := after[k]
		sxAssert(ok, "pre-existing pair of tips still connected after "+what)
		if ok {
			sxAssert(a == d, "path length between pre-existing tips unchanged by "+what)
		}
	}
}

func addComments(t *tree.Tree) {
	// p-values on the supported branches too (they are part of the text)
	for i, e := range t.Edges() {
		if !e.Right().Tip() && i%2 == 0 {
			e.SetSupport(0.5)
			e.SetPValue(0.25)
		}
	}
	for i, nd := range t.Nodes() {
		if i%2 == 0 {
			nd.AddComment(fmt.Sprintf("n%d", i))
		}
		if i%3 == 0 {
			nd.AddComment(fmt.Sprintf("m%d", i))
		}
	}
	for i, e := range t.Edges() {
		if i%2 == 1 {
			e.AddComment(fmt.Sprintf("e%d", i))
		}
	}
}

func c15start(n int) *tree.Tree {
	s := genShape(n, false)
	rooted := sxChoose("rooted", 2) == 1
	for r := 0; r < sxParam("singles", 0); r++ {
		es := s.edges()
		ch := sxChoose(fmt.Sprintf("single%d", r), len(es)+1)
		if ch == len(es) {
			break
		}
		u, v := es[ch][0], es[ch][1]
		m := s.addNode(-1)
		s.replaceNeighbor(u, v, m)
		s.replaceNeighbor(v, u, m)
		s.adj[m] = append(s.adj[m], u, v)
	}
	root := rootShape(s, rooted)
	if sxParam("rootsingle", 0) == 1 && sxChoose("rootsingle", 2) == 1 {
		// a root with a single child above the tree (a placement of a single-child node)
		top := s.addNode(-1)
		s.link(top, root)
		root = top
	}
	t := buildTree(s, root)
	if sxParam("lenmode", lenAll) == lenAll {
		decorate(t, lenAll, sxParam("supmode", supNone))
	} else {
		decorate(t, lenNone, supNone)
	}
	return t
}

// H_C15_graft: GraftTreeOnTip replaces a tip by a tree.
func H_C15_graft() {
	n := sxParam("n", 4)
	t := c15start(n)
	sxAssert(t.ReinitIndexes() == nil, "ReinitIndexes")
	tips := t.Tips()
	tp := tips[sxChoose("grafttip", len(tips))].Name()
	g := c03otherTree(2 + sxChoose("graftsize", 2))
	gd := distByName(g)
	ng := len(g.Tips())
	before := distByName(t)
	sxReach("ready")
	err := t.GraftTreeOnTip(tp, g)
	sxAssert(err == nil, "GraftTreeOnTip succeeds")
	sxAssert(wellFormed(t) == "", "well-formed after GraftTreeOnTip")
	after := distByName(t)
	names := tipNameSet(t)
	sxAssert(names[tp] == 0, "the grafted-on tip is replaced")
	for k, d := range before {
		if len(k) >= len(tp)+1 && (k[:len(tp)+1] == tp+"|" || k[len(k)-len(tp)-1:] == "|"+tp) {
			continue
		}
		a, ok := after[k]
		sxAssert(ok && a == d, "path length between pre-existing tips unchanged by GraftTreeOnTip")
	}
	for k, d := range gd {
		a, ok := after[k]
		sxAssert(ok && a == d, "path lengths inside the grafted tree unchanged")
	}
	sxAssert(len(t.Tips()) == n-1+ng, "exactly the requested tips added")
	sxReach("checked")
}

// H_C15_merge: Merge joins two rooted trees with disjoint tips under a new root.
func H_C15_merge() {
	n := sxParam("n", 4)
	t := genTree(n, 1, false)
	decorate(t, lenAll, supAny)
	o := c03otherTree(2 + sxChoose("othersize", 2))
	sxAssert(t.ReinitIndexes() == nil && o.ReinitIndexes() == nil, "ReinitIndexes")
	before, obefore := distByName(t), distByName(o)
	no := len(o.Tips())
	sxReach("ready")
	err := t.Merge(o)
	sxAssert(err == nil, "Merge of two rooted trees with disjoint tips succeeds")
	sxAssert(wellFormed(t) == "", "well-formed after Merge")
	sxAssert(t.Rooted(), "merged tree is rooted")
	after := distByName(t)
	c15old(before, after, "Merge")
	c15old(obefore, after, "Merge (second tree)")
	sxAssert(len(t.Tips()) == n+no, "merged tree has the tips of both trees")
	sxAssert(indexAgrees(t) == "", "split index describes the merged tree")
	sxReach("checked")
}

// H_C15_identical: InsertIdenticalTips adds tips at distance 0 from their model.
func H_C15_identical() {
	n := sxParam("n", 4)
	t := c15start(n)
	sxAssert(t.ReinitIndexes() == nil, "ReinitIndexes")
	tips := t.Tips()
	m1 := tips[sxChoose("model", len(tips))].Name()
	groups := [][]string{{m1, "y0"}}
	added := map[string]string{"y0": m1}
	if sxChoose("twogroups", 2) == 1 {
		m2 := tips[sxChoose("model2", len(tips))].Name()
		if m2 != m1 {
			groups = append(groups, []string{"y1", m2, "y2"})
			added["y1"], added["y2"] = m2, m2
		}
	}
	before := distByName(t)
	sxReach("ready")
	err := t.InsertIdenticalTips(groups)
	sxAssert(err == nil, "InsertIdenticalTips succeeds")
	sxAssert(wellFormed(t) == "", "well-formed after InsertIdenticalTips")
	after := distByName(t)
	c15old(before, after, "InsertIdenticalTips")
	names := tipNameSet(t)
	sxAssert(len(t.Tips()) == n+len(added), "exactly the requested tips added")
	for nw, model := range added {
		sxAssert(names[nw] == 1, "requested tip present once")
		d, ok := after[nw+"|"+model]
		sxAssert(ok && d == 0, "identical tip sits at distance zero from its model")
	}
	sxAssert(indexAgrees(t) == "", "split index describes the tree after InsertIdenticalTips")
	sxReach("checked")
}

// H_C15_singles: RemoveSingleNodes keeps every path length.
func H_C15_singles() {
	n := sxParam("n", 4)
	t := c15start(n)
	before := distByName(t)
	had := hasSingleNode(t)
	sxReach("ready")
	t.RemoveSingleNodes()
	sxAssert(wellFormed(t) == "", "well-formed after RemoveSingleNodes")
	sxAssert(!hasSingleNode(t), "no single-child node left")
	after := distByName(t)
	c15old(before, after, "RemoveSingleNodes")
	named := 0
	for _, tp := range t.Tips() {
		if tp.Name() != "" {
			named++ // (a root with a single child is not a tip)
		}
	}
	sxAssert(named == n, "no tip added or removed")
	if had {
		sxReach("had-single")
	}
	sxReach("checked")
}

// H_C15_subtree: SubTree extracts the clade below an inner node.
func H_C15_subtree() {
	n := sxParam("n", 4)
	t := c15start(n)
	in := innerNodes(t)
	nd := in[sxChoose("subroot", len(in))]
	before := distByName(t)
	want := maskBelow(nd, parentOf(t, nd), nil)
	text := t.Newick()
	sxReach("ready")
	sub := t.SubTree(nd)
	sxAssert(wellFormed(sub) == "", "subtree well-formed")
	sxAssert(maskBelow(sub.Root(), nil, nil) == want, "subtree has exactly the tips below the node")
	after := distByName(sub)
	for k, d := range after {
		b, ok := before[k]
		sxAssert(ok && b == d, "path lengths inside the subtree are those of the source")
	}
	sxAssert(t.Newick() == text, "source unchanged by SubTree")
	sxReach("checked")
}

func parentOf(t *tree.Tree, nd *tree.Node) *tree.Node {
	if nd == t.Root() {
		return nil
	}
	p, err := nd.Parent()
	if err != nil {
		return nil
	}
	return p
}

// twin edits: anything that writes into a tree
const c15nedits = c03nops + 4

// default structural edits applied to a twin: Reroot, UnRoot, RemoveTips,
// CollapseLowSupport, Resolve, RemoveSingleNodes, NNI, Rename, Clear*
const c15defaultMask = 1<<0 | 1<<4 | 1<<5 | 1<<7 | 1<<9 | 1<<15 | 1<<16 | 1<<17 | 1<<20

func c15edit(t *tree.Tree, n int) {
	op := sxChoose("twinedit", c15nedits)
	switch {
	case op < c03nops:
		if sxParam("editmask", c15defaultMask)&(1<<uint(op)) == 0 {
			sxAssume(false)
		}
		c03apply(t, n, op, 9)
	case op == c03nops:
		for _, nd := range t.Nodes() {
			nd.ClearComments()
			nd.AddComment("changed")
		}
	case op == c03nops+1:
		for _, e := range t.Edges() {
			e.ClearComments()
			e.AddComment("changed")
		}
	case op == c03nops+2:
		for _, e := range t.Edges() {
			e.SetLength(77)
			e.SetSupport(0.5)
			e.SetPValue(0.25)
		}
	case op == c03nops+3:
		for _, nd := range t.Nodes() {
			nd.SetName(nd.Name() + "x")
		}
	}
}

type c15obs struct {
	text  string
	found []bool
}

func c15observe(t *tree.Tree, n int, indexed bool) c15obs {
	o := c15obs{text: t.Newick()}
	if indexed {
		for i := 0; i < n; i++ {
			ok, err := t.ExistsTip(tipName(i))
			o.found = append(o.found, ok && err == nil)
		}
	}
	return o
}

func c15sameObs(a, b c15obs, what string) {
	sxAssert(a.text == b.text, what+": text unchanged")
	for i := range a.found {
		sxAssert(a.found[i] == b.found[i], what+": tip look-ups unchanged")
	}
}

// H_C15_clone: a clone is an exact copy and fully independent of its source.
func H_C15_clone() {
	n := sxParam("n", 4)
	t := c15start(n)
	addComments(t)
	indexed := sxChoose("indexed", 2) == 1
	if indexed {
		sxAssert(t.ReinitIndexes() == nil, "ReinitIndexes")
	}
	sxReach("ready")
	var c *tree.Tree
	sub := sxChoose("copykind", 2) == 1
	if sub {
		in := innerNodes(t)
		c = t.SubTree(in[sxChoose("subroot", len(in))])
	} else {
		c = t.Clone()
		sxAssert(c.Newick() == t.Newick(), "clone has the same text, comments included")
		sxAssert(newickRef(c) == newickRef(t), "clone has the same structure and values")
	}
	sxAssert(wellFormed(c) == "", "copy well-formed")
	ot, oc := c15observe(t, n, indexed), c15observe(c, n, false)
	if sxChoose("editwhich", 2) == 0 {
		c15edit(c, n)
		c15sameObs(ot, c15observe(t, n, indexed), "source after editing the copy")
		sxAssert(wellFormed(t) == "", "source well-formed after editing the copy")
	} else {
		c15edit(t, n)
		c15sameObs(oc, c15observe(c, n, false), "copy after editing the source")
		sxAssert(wellFormed(c) == "", "copy well-formed after editing the source")
	}
	sxReach("checked")
}
