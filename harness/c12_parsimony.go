package zzvh

import (
	"sort"
	"strings"

	"github.com/evolbioinfo/gotree/acr"
	"github.com/evolbioinfo/gotree/tree"
)

var c12alphabet = []string{"A", "B", "C", "D"}

// c12brute: minimum number of changes over all assignments of the inner nodes,
// and for every inner node the set of states it takes in some optimal assignment.
func c12brute(t *tree.Tree, tipState map[*tree.Node]int, k int) (int, map[*tree.Node][]bool) {
	var inner []*tree.Node
	for _, nd := range t.Nodes() {
		if !nd.Tip() {
			inner = append(inner, nd)
		}
	}
	edges := t.Edges()
	assign := map[*tree.Node]int{}
	for nd, s := range tipState {
		assign[nd] = s
	}
	best := 1 << 30
	total := 1
	for range inner {
		total *= k
	}
	costs := make([]int, total)
	for code := 0; code < total; code++ {
		c := code
		for _, nd := range inner {
			assign[nd] = c % k
			c /= k
		}
		cost := 0
		for _, e := range edges {
			if assign[e.Left()] != assign[e.Right()] {
				cost++
			}
		}
		costs[code] = cost
		if cost < best {
			best = cost
		}
	}
	mpr := map[*tree.Node][]bool{}
	for _, nd := range inner {
		mpr[nd] = make([]bool, k)
	}
	for code := 0; code < total; code++ {
		if costs[code] != best {
			continue
		}
		c := code
		for _, nd := range inner {
			mpr[nd][c%k] = true
			c /= k
		}
	}
	return best, mpr
}

// H_C12_acr: parsimony ancestral character reconstruction is optimal.
func H_C12_acr() {
	n := sxParam("n", 4)
	k := sxParam("k", 3)
	sh := genShape(n, sxParam("binary", 0) == 1)
	if mi := sxParam("maxinner", 0); mi > 0 {
		// only the shapes with at most mi inner nodes (large multifurcations)
		sxAssume(len(sh.inner()) <= mi)
	}
	t := buildTree(sh, rootShape(sh, sxChoose("rooted", 2) == 1))
	algos := []int{acr.ALGO_DOWNPASS, acr.ALGO_DELTRAN, acr.ALGO_ACCTRAN, acr.ALGO_NONE}
	algo := algos[sxChoose("algo", len(algos))]
	chars := map[string]string{}
	tipState := map[*tree.Node]int{}
	for _, tp := range t.Tips() {
		s := sxChoose("state_"+tp.Name(), k)
		chars[tp.Name()] = c12alphabet[s]
		tipState[tp] = s
	}
	// the alphabet is made of the states that occur
	var present []string
	seen := map[string]bool{}
	for _, s := range chars {
		if !seen[s] {
			seen[s] = true
			present = append(present, s)
		}
	}
	sort.Strings(present)
	best, mpr := c12brute(t, tipState, k)
	nodes := t.Nodes()
	sxReach("ready")

	states, nsteps, err := acr.ParsimonyAcr(t, chars, algo, false)

	sxAssert(err == nil, "ParsimonyAcr succeeds")
	sxAssert(nsteps == best, "number of steps = true minimum number of state changes")
	unamb := true
	assign := map[*tree.Node]int{}
	for i, nd := range nodes {
		if nd.Tip() {
			cm := nd.Comments()
			sxAssert(len(cm) == 1 && cm[0] == chars[nd.Name()], "tip states are never altered")
			assign[nd] = tipState[nd]
			continue
		}
		key := itoa(i)
		got, ok := states[key]
		sxAssert(ok, "every inner node is reported")
		if algo == acr.ALGO_NONE {
			unamb = false
			continue
		}
		var set []string
		if got == "*" {
			set = present
		} else {
			set = strings.Split(got, ",")
		}
		sxAssert(len(set) > 0, "non-empty state set")
		nin := 0
		for _, s := range set {
			idx := -1
			for j, a := range c12alphabet {
				if a == s {
					idx = j
				}
			}
			sxAssert(idx >= 0 && idx < k, "reported state belongs to the alphabet")
			if idx >= 0 && idx < k {
				sxAssert(mpr[nd][idx], "every reported state occurs in some most-parsimonious reconstruction")
				assign[nd] = idx
				nin++
			}
		}
		if algo == acr.ALGO_DOWNPASS {
			nm := 0
			for _, b := range mpr[nd] {
				if b {
					nm++
				}
			}
			sxAssert(nin == nm, "the plain down-pass reports exactly all most-parsimonious states")
		}
		if len(set) != 1 {
			unamb = false
		}
	}
	if unamb {
		cost := 0
		for _, e := range t.Edges() {
			if assign[e.Left()] != assign[e.Right()] {
				cost++
			}
		}
		sxAssert(cost == best, "an unambiguous output is itself most parsimonious")
		sxReach("unambiguous")
	}
	sxReach("checked")
}

func itoa(i int) string {
	if i == 0 {
		return "0"
	}
	s := ""
	for i > 0 {
		s = string(rune('0'+i%10)) + s
		i /= 10
	}
	return s
}
