package zzvh

import (
	"github.com/evolbioinfo/gotree/tree"
)

func oneTreeChan(t *tree.Tree, id int) chan tree.Trees {
	ch := make(chan tree.Trees, 1)
	ch <- tree.Trees{Tree: t, Id: id, Err: nil}
	close(ch)
	return ch
}

// innerSplitSet: canonical masks of the non-trivial splits.
func innerSplitSet(t *tree.Tree) map[uint64]bool {
	res := map[uint64]bool{}
	for k, s := range splitsOf(t, lenNone) {
		if !s.tip {
			res[k] = true
		}
	}
	return res
}

// H_C08_compare: Compare(ref, comp) counts = set differences of the split sets.
func H_C08_compare() {
	n := sxParam("n", 4)
	tipNameStyle = sxParam("names", 0)
	defer func() { tipNameStyle = 0 }()
	ref := genTree(n, 0, false)
	comp := genTree(n, 0, false)
	tips := sxChoose("tips", 2) == 1
	identical := sxChoose("identical", 2) == 1
	R, C := innerSplitSet(ref), innerSplitSet(comp)
	only1, only2, common := 0, 0, 0
	for k := range R {
		if C[k] {
			common++
		} else {
			only1++
		}
	}
	for k := range C {
		if !R[k] {
			only2++
		}
	}
	if tips {
		common += n
	}
	sxReach("ready")
	stats, err := tree.Compare(ref, oneTreeChan(comp, 7), tips, identical, 1)
	sxAssert(err == nil, "Compare starts")
	nrec := 0
	for st := range stats {
		nrec++
		sxAssert(st.Err == nil, "no error for trees on the same taxa")
		sxAssert(st.Id == 7, "record carries the tree id")
		if !identical {
			sxAssert(st.Tree1 == only1, "Tree1 = splits only in the reference")
			sxAssert(st.Tree2 == only2, "Tree2 = splits only in the compared tree")
			sxAssert(st.Common == common, "Common = shared splits")
		}
		sxAssert(st.Sametree == (only1 == 0 && only2 == 0), "Sametree iff both only-counts are zero")
	}
	sxAssert(nrec == 1, "exactly one record per compared tree")
	if only1 > 0 && only2 == 0 {
		sxReach("contraction")
	}
	sxReach("checked")
}

// H_C08_weighted: CompareWeighted terms = length differences of shared
// splits and lengths of unshared ones.
func H_C08_weighted() {
	n := sxParam("n", 4)
	ref := genTree(n, 0, false)
	comp := genTree(n, 0, false)
	decorate(ref, lenAll, supNone)
	for i, e := range comp.Edges() {
		l := sxLen(sxName2("clen", i))
		sxAssume(l >= 0)
		e.SetLength(l)
	}
	tips := sxChoose("tips", 2) == 1
	identical := sxChoose("identical", 2) == 1
	rs, cs := splitsOf(ref, lenAll), splitsOf(comp, lenAll)
	full := fullMask(ref, nil)
	var wantRef, wantComp, wantCommon []float64
	same := true
	for _, e := range comp.Edges() {
		if !tips && e.Right().Tip() {
			continue
		}
		k := canonMask(maskBelow(e.Right(), e.Left(), nil), full)
		if r, ok := rs[k]; ok {
			wantCommon = append(wantCommon, r.length-e.Length())
			if r.length != e.Length() {
				same = false
			}
		} else {
			wantComp = append(wantComp, e.Length())
			same = false
		}
	}
	for _, e := range ref.Edges() {
		if !tips && e.Right().Tip() {
			continue
		}
		k := canonMask(maskBelow(e.Right(), e.Left(), nil), full)
		if _, ok := cs[k]; !ok {
			wantRef = append(wantRef, e.Length())
			same = false
		}
	}
	sxReach("ready")
	stats, err := tree.CompareWeighted(ref, oneTreeChan(comp, 3), tips, identical, 1)
	sxAssert(err == nil, "CompareWeighted starts")
	nrec := 0
	for st := range stats {
		nrec++
		sxAssert(st.Err == nil, "no error for trees on the same taxa")
		sxAssert(st.Id == 3, "record carries the tree id")
		sxAssert(st.Sametree == same, "Sametree iff no unshared split and all shared lengths equal")
		if !identical {
			sxAssert(eqFloats(st.Tree1, wantRef), "Tree1 = lengths of the splits only in the reference")
			sxAssert(eqFloats(st.Tree2, wantComp), "Tree2 = lengths of the splits only in the compared tree")
			sxAssert(eqFloats(st.Common, wantCommon), "Common = reference length - compared length of shared splits")
		}
	}
	sxAssert(nrec == 1, "exactly one record per compared tree")
	sxReach("checked")
}

func sxName2(p string, i int) string { return p + string(rune('0'+i/10)) + string(rune('0'+i%10)) }

func eqFloats(a, b []float64) bool {
	if len(a) != len(b) {
		return false
	}
	for i := range a {
		if a[i] != b[i] {
			return false
		}
	}
	return true
}

// H_C08_othertaxa: trees on different taxa are rejected with an error in the record.
func H_C08_othertaxa() {
	n := sxParam("n", 4)
	ref := genTree(n, 0, false)
	comp := genTree(n, 0, false)
	tipsC := comp.Tips()
	switch sxChoose("difference", 3) {
	case 0:
		// one tip of the compared tree gets a name absent from the reference
		tipsC[sxChoose("renamed", len(tipsC))].SetName("zz_other")
	case 1:
		// the compared tree has one more taxon (strict superset)
		es := comp.Edges()
		extra := comp.NewNode()
		extra.SetName("zz_extra")
		_, _, _, err := comp.GraftTipOnEdge(extra, es[sxChoose("graftedge", len(es))])
		sxAssert(err == nil, "GraftTipOnEdge")
	case 2:
		// the compared tree lacks one taxon (strict subset)
		sxAssume(n >= 4)
		sxAssert(comp.RemoveTips(false, tipsC[sxChoose("removed", len(tipsC))].Name()) == nil, "RemoveTips")
	}
	tips := sxChoose("tips", 2) == 1
	identical := sxChoose("identical", 2) == 1
	// the bad tree comes alone, or after a valid tree handled by the same worker
	var list []*tree.Tree
	bad := 0
	if sxChoose("aftervalid", 2) == 1 {
		list = append(list, ref.Clone())
		bad = 1
	}
	list = append(list, comp)
	sxReach("ready")
	if sxChoose("weighted", 2) == 0 {
		stats, err := tree.Compare(ref, treesChan(list), tips, identical, 1)
		sxAssert(err == nil, "Compare starts")
		for st := range stats {
			sxAssert((st.Err != nil) == (st.Id == bad), "Compare: different taxa rejected with an error")
		}
	} else {
		stats, err := tree.CompareWeighted(ref, treesChan(list), tips, identical, 1)
		sxAssert(err == nil, "CompareWeighted starts")
		for st := range stats {
			sxAssert((st.Err != nil) == (st.Id == bad), "CompareWeighted: different taxa rejected with an error")
		}
	}
	sxReach("checked")
}

// H_C08_weighted_multi: several compared trees through one worker; the records
// are collected first and checked afterwards (as a caller that sorts by id does).
func H_C08_weighted_multi() {
	n := sxParam("n", 4)
	m := sxParam("m", 2)
	ref := genTree(n, 0, sxParam("binary", 1) == 1)
	decorate(ref, lenAll, supNone)
	comps := make([]*tree.Tree, m)
	for x := range comps {
		comps[x] = genTree(n, 0, sxParam("binary", 1) == 1)
		for i, e := range comps[x].Edges() {
			l := sxLen(sxName2("c", x) + sxName2("len", i))
			sxAssume(l >= 0)
			e.SetLength(l)
		}
	}
	rs := splitsOf(ref, lenAll)
	full := fullMask(ref, nil)
	sxReach("ready")
	stats, err := tree.CompareWeighted(ref, treesChan(comps), true, false, 1)
	sxAssert(err == nil, "CompareWeighted starts")
	var recs []tree.WeightedBipartitionStats
	for st := range stats {
		recs = append(recs, st)
	}
	sxAssert(len(recs) == m, "one record per compared tree")
	for _, st := range recs {
		sxAssert(st.Err == nil && st.Id >= 0 && st.Id < m, "record of a compared tree")
		if st.Id < 0 || st.Id >= m {
			continue
		}
		var wantCommon, wantComp []float64
		for _, e := range comps[st.Id].Edges() {
			k := canonMask(maskBelow(e.Right(), e.Left(), nil), full)
			if r, ok := rs[k]; ok {
				wantCommon = append(wantCommon, r.length-e.Length())
			} else {
				wantComp = append(wantComp, e.Length())
			}
		}
		sxAssert(eqFloats(st.Common, wantCommon), "Common terms of every record stay those of its own tree")
		sxAssert(eqFloats(st.Tree2, wantComp), "Tree2 terms of every record stay those of its own tree")
	}
	sxReach("checked")
}
