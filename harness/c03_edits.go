package zzvh

import (
	"bytes"
	"fmt"
	"strconv"

	"github.com/evolbioinfo/gotree/tree"
)

// newickRef: an independent Newick writer over the public read API.
func newickRef(t *tree.Tree) string {
	var b bytes.Buffer
	var rec func(n, parent *tree.Node)
	rec = func(n, parent *tree.Node) {
		ng, es := n.Neigh(), n.Edges()
		if len(ng) > 0 {
			if len(ng) > 1 {
				b.WriteString("(")
			}
			k := 0
			for i, c := range ng {
				if c == parent {
					continue
				}
				if k > 0 {
					b.WriteString(",")
				}
				k++
				rec(c, n)
				e := es[i]
				if e.Support() != tree.NIL_SUPPORT && c.Name() == "" {
					b.WriteString(strconv.FormatFloat(e.Support(), 'f', -1, 64))
					if e.PValue() != tree.NIL_PVALUE {
						b.WriteString("/" + strconv.FormatFloat(e.PValue(), 'f', -1, 64))
					}
				}
				for _, cm := range c.Comments() {
					b.WriteString("[" + cm + "]")
				}
				if e.Length() != tree.NIL_LENGTH {
					b.WriteString(":" + strconv.FormatFloat(e.Length(), 'f', -1, 64))
				}
				for _, cm := range e.Comments() {
					b.WriteString("[" + cm + "]")
				}
			}
			if len(ng) > 1 {
				b.WriteString(")")
			}
		}
		b.WriteString(n.Name())
	}
	r := t.Root()
	rec(r, nil)
	for _, cm := range r.Comments() {
		b.WriteString("[" + cm + "]")
	}
	b.WriteString(";")
	return b.String()
}

func c03check(t *tree.Tree, what string) {
	sxAssert(wellFormed(t) == "", "well-formed after "+what)
	sxAssert(enumerationsAgree(t) == "", "enumerations agree after "+what)
	sxAssert(t.Rooted() == (t.Root().Nneigh() == 2), "Rooted() iff root of degree 2 after "+what)
	text := t.Newick()
	sxAssert(text == newickRef(t), "Newick text describes the structure after "+what)
	// ... and the text reads back as that structure: same shape, child order, names, values
	// (a root with a single child cannot be written by gotree's writer, which
	// drops it: such trees, only produced by SubTree at a single-child node, are
	// outside this clause)
	if sxParam("parseback", 1) == 1 && t.Root().Nneigh() >= 2 {
		back, err := parseNewick(text)
		sxAssert(err == nil, "Newick text parses after "+what)
		if err == nil {
			sxAssert(c03sameShape(t.Root(), nil, back.Root(), nil), "Newick text reads back as the same shape and names after "+what)
		}
	}
}

// c03sameShape: same child order, same names (tips and inner nodes) — the
// numbers are C01's subject.
func c03sameShape(a, pa, b, pb *tree.Node) bool {
	if a.Name() != b.Name() {
		return false
	}
	var ka, kb []*tree.Node
	for _, c := range a.Neigh() {
		if c != pa {
			ka = append(ka, c)
		}
	}
	for _, c := range b.Neigh() {
		if c != pb {
			kb = append(kb, c)
		}
	}
	if len(ka) != len(kb) {
		return false
	}
	for i := range ka {
		if !c03sameShape(ka[i], a, kb[i], b) {
			return false
		}
	}
	return true
}

func subsetNames(n int, tag string, allowAbsent bool) (uint64, []string) {
	sub := uint64(sxChoose(tag, 1<<uint(n)))
	var names []string
	for i := 0; i < n; i++ {
		if sub&(1<<uint(i)) != 0 {
			names = append(names, tipName(i))
		}
	}
	if allowAbsent && sxChoose(tag+"-absent", 2) == 1 {
		names = append(names, "zz_not_in_tree")
	}
	return sub, names
}

// small rooted tree on tips named x0,x1(,x2) used for grafting / merging
func c03otherTree(k int) *tree.Tree {
	t := tree.NewTree()
	r := t.NewNode()
	t.SetRoot(r)
	a := t.NewNode()
	a.SetName("x0")
	t.ConnectNodes(r, a).SetLength(1)
	if k == 2 {
		b := t.NewNode()
		b.SetName("x1")
		t.ConnectNodes(r, b).SetLength(2)
	} else {
		in := t.NewNode()
		t.ConnectNodes(r, in).SetLength(0.5)
		b := t.NewNode()
		b.SetName("x1")
		t.ConnectNodes(in, b).SetLength(2)
		c := t.NewNode()
		c.SetName("x2")
		t.ConnectNodes(in, c).SetLength(3)
	}
	return t
}

const c03nops = 22

var c03opNames = []string{"Reroot", "RerootFirst", "RerootOutGroup", "RerootMidPoint", "UnRoot", "RemoveTips",
	"CollapseShortBranches", "CollapseLowSupport", "CollapseTopoDepth", "Resolve", "RotateInternalNodes",
	"SortNeighborsByTips", "GraftTreeOnTip", "Merge", "InsertIdenticalTips", "RemoveSingleNodes", "NNI",
	"Rename", "Clone", "SubTree", "Clear", "ShuffleTips"}

// c03apply runs one editing operation with all its argument choices. It
// returns the tree to continue with and whether the operation reported success.
func c03apply(t *tree.Tree, n int, op int, step int) (*tree.Tree, bool) {
	tag := func(s string) string { return fmt.Sprintf("%s%d", s, step) }
	switch op {
	case 0:
		// any node of the tree as new root: inner nodes must be accepted, a tip
		// is either refused or ... the result must still be a proper tree
		nodes := t.Nodes()
		if len(nodes) == 0 {
			return t, false
		}
		return t, t.Reroot(nodes[sxChoose(tag("newroot"), len(nodes))]) == nil
	case 1:
		return t, t.RerootFirst() == nil
	case 2:
		sub, names := subsetNames(n, tag("outgroup"), true)
		if sub == 0 {
			return t, false
		}
		return t, t.RerootOutGroup(sxChoose(tag("remove"), 2) == 1, sxChoose(tag("strict"), 2) == 1, names...) == nil
	case 3:
		return t, t.RerootMidPoint() == nil
	case 4:
		t.UnRoot()
		return t, true
	case 5:
		if hasSingleNode(t) {
			return t, false // outside the stated precondition of pruning
		}
		sub, names := subsetNames(n, tag("prune"), true)
		revert := sxChoose(tag("revert"), 2) == 1
		rem := popcount(tipSet(t) &^ sub)
		if revert {
			rem = popcount(tipSet(t) & sub)
		}
		if rem < 2 {
			return t, false
		}
		return t, t.RemoveTips(revert, names...) == nil
	case 6:
		t.CollapseShortBranches(sxLen(tag("theta")), sxChoose(tag("removeroot"), 2) == 1, sxChoose(tag("removetips"), 2) == 1)
		return t, true
	case 7:
		t.CollapseLowSupport(sxLen(tag("theta")), sxChoose(tag("removeroot"), 2) == 1)
		return t, true
	case 8:
		if t.ReinitIndexes() != nil {
			return t, false
		}
		lo := sxInt(tag("lo"), 0, 3)
		hi := sxInt(tag("hi"), 0, 3)
		return t, t.CollapseTopoDepth(lo, hi, sxChoose(tag("removeroot"), 2) == 1, false) == nil
	case 9:
		t.Resolve()
		return t, true
	case 10:
		t.RotateInternalNodes()
		return t, true
	case 11:
		t.SortNeighborsByTips()
		return t, true
	case 12:
		if t.ReinitIndexes() != nil {
			return t, false
		}
		tips := t.Tips()
		tp := tips[sxChoose(tag("grafttip"), len(tips))]
		g := c03otherTree(2 + sxChoose(tag("graftsize"), 2))
		return t, t.GraftTreeOnTip(tp.Name(), g) == nil
	case 13:
		o := c03otherTree(2 + sxChoose(tag("mergesize"), 2))
		if o.ReinitIndexes() != nil || t.ReinitIndexes() != nil {
			return t, false
		}
		return t, t.Merge(o) == nil
	case 14:
		tips := t.Tips()
		tp := tips[sxChoose(tag("model"), len(tips))]
		groups := [][]string{{tp.Name(), "y0"}}
		if sxChoose(tag("twogroups"), 2) == 1 && len(tips) > 1 {
			tp2 := tips[sxChoose(tag("model2"), len(tips))]
			if tp2 != tp {
				groups = append(groups, []string{"y1", tp2.Name(), "y2"})
			}
		}
		if t.ReinitIndexes() != nil {
			return t, false
		}
		return t, t.InsertIdenticalTips(groups) == nil
	case 15:
		t.RemoveSingleNodes()
		return t, true
	case 16:
		var rs []tree.Rearrangement
		(&tree.NNIRearranger{}).Rearrange(t, func(r tree.Rearrangement) bool { rs = append(rs, r); return true })
		if len(rs) == 0 {
			return t, false
		}
		r := rs[sxChoose(tag("nni"), len(rs))]
		if r.Apply() != nil {
			return t, false
		}
		if sxChoose(tag("undo"), 2) == 1 {
			return t, r.Undo() == nil
		}
		return t, true
	case 17:
		tips := t.Tips()
		if len(tips) == 0 {
			return t, false
		}
		m := map[string]string{tips[sxChoose(tag("renamed"), len(tips))].Name(): "t9"}
		return t, t.Rename(m) == nil
	case 18:
		return t.Clone(), true
	case 19:
		in := innerNodes(t)
		if len(in) == 0 {
			return t, false
		}
		return t.SubTree(in[sxChoose(tag("subroot"), len(in))]), true
	case 20:
		if sxChoose(tag("what"), 2) == 0 {
			t.ClearLengths(sxChoose(tag("internal"), 2) == 1, sxChoose(tag("external"), 2) == 1)
		} else {
			t.ClearSupports()
		}
		return t, true
	case 21:
		t.ShuffleTips()
		return t, true
	}
	return t, false
}

// H_C03_edits: a history of k successful edits from any well-formed start tree.
func H_C03_edits() {
	n := sxParam("n", 4)
	k := sxParam("k", 1)
	s := genShape(n, false)
	rooted := sxChoose("rooted", 2) == 1
	// optionally single-child inner nodes (what re-rooting a rooted tree, or an
	// NCBI-like taxonomy, leaves behind): up to `singles` of them, anywhere,
	// including several below one parent and chains
	for r := 0; r < sxParam("singles", 1); r++ {
		es := s.edges()
		ch := sxChoose(fmt.Sprintf("single%d", r), len(es)+1)
		if ch == len(es) {
			break
		}
		u, v := es[ch][0], es[ch][1]
		m := s.addNode(-1)
		s.replaceNeighbor(u, v, m)
		s.replaceNeighbor(v, u, m)
		s.adj[m] = append(s.adj[m], u, v)
	}
	t := buildTree(s, rootShape(s, rooted))
	// deco 0: every length and support present (symbolic >= 0); 1: none; 2: each free (absent or >= 0)
	switch sxParam("deco", 2) {
	case 0:
		decorate(t, lenAll, supPresent)
	case 1:
		decorate(t, lenNone, supNone)
	default:
		decorate(t, lenAny, supAny)
	}
	im := sxParam("indexedmode", 2)
	if im == 1 || (im == 2 && sxChoose("indexed", 2) == 1) {
		sxAssert(t.ReinitIndexes() == nil, "ReinitIndexes succeeds on the start tree")
	}
	c03check(t, "construction")
	sxReach("start")
	firstOp := sxParam("op", -1)
	for step := 0; step < k; step++ {
		var op int
		if step == 0 && firstOp >= 0 {
			op = firstOp
		} else {
			op = sxChoose(fmt.Sprintf("op%d", step), c03nops)
		}
		if sxParam("skipmask", 0)&(1<<uint(op)) != 0 {
			return
		}
		if om := sxParam("onlymask", 0); om != 0 && step == 0 && om&(1<<uint(op)) == 0 {
			return
		}
		if om := sxParam("onlymask2", 0); om != 0 && step > 0 && om&(1<<uint(op)) == 0 {
			return
		}
		var ok bool
		t, ok = c03apply(t, n, op, step)
		if !ok {
			return
		}
		c03check(t, c03opNames[op])
		sxReach("edited")
	}
}
