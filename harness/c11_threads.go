package zzvh

import (
	"errors"

	"github.com/evolbioinfo/gotree/support"
	"github.com/evolbioinfo/gotree/tree"
)

// collection with optionally one erroneous record at a chosen position
func c11chan(ts []*tree.Tree, errAt int) chan tree.Trees {
	ch := make(chan tree.Trees, len(ts)+1)
	for i, t := range ts {
		if i == errAt {
			ch <- tree.Trees{Tree: nil, Id: i, Err: errors.New("parse error")}
		} else {
			ch <- tree.Trees{Tree: t, Id: i}
		}
	}
	close(ch)
	return ch
}

// schedules: 0 = run-to-block FIFO, 1 = fair round robin at every scheduling
// point (so that every worker really takes trees), 2 = every interleaving
// with at most `preempt` non-forced context switches
func c11mode() {
	switch sxParam("sched", 1) {
	case 1:
		sxOpt("rr-sched", true)
	case 2:
		sxOptN("preempt-bound", sxParam("preempt", 1))
		sxOpt("explore-sched", true)
	}
	sxOpt("race", true)
}

// H_C11_compare: Compare with several workers = per-tree results of the split oracle,
// on every interleaving; no race; terminates also with an erroneous tree.
func H_C11_compare() {
	n := sxParam("n", 4)
	m := sxParam("m", 2)
	cpus := 1 + sxChoose("cpus", sxParam("maxcpus", 3))
	fixed := sxParam("fixed", 0) == 1
	if fixed {
		shapeCode = 1
	}
	ref := genTree(n, 0, sxParam("binary", 1) == 1)
	comps := make([]*tree.Tree, m)
	for i := range comps {
		if fixed {
			shapeCode = i // different trees, chosen once
		}
		comps[i] = genTree(n, 0, sxParam("binary", 1) == 1)
	}
	shapeCode = -1
	errAt := sxChoose("errat", m+1) - 1
	weighted := sxParam("weighted", 0) == 1
	if sxParam("symhash", 0) == 1 {
		// arbitrary name hashes: every bucket layout of the shared split index
		// (collisions included) is explored
		sxOptN("tax-hash-bits", sxParam("hashbits", 1))
		sxOpt("stub-tax-hash", true)
	}
	// distinct concrete lengths, so that a term that belongs to another tree is visible
	for j, e := range ref.Edges() {
		e.SetLength(float64(100 + j))
	}
	for i, c := range comps {
		for j, e := range c.Edges() {
			e.SetLength(float64(10*(i+1) + j))
		}
	}
	rsplits := splitsOf(ref, lenAll)
	fullm := fullMask(ref, nil)
	R := innerSplitSet(ref)
	type exp struct{ o1, o2, c int }
	want := make([]exp, m)
	for i, c := range comps {
		C := innerSplitSet(c)
		for k := range R {
			if C[k] {
				want[i].c++
			} else {
				want[i].o1++
			}
		}
		for k := range C {
			if !R[k] {
				want[i].o2++
			}
		}
	}
	c11mode()
	sxReach("ready")
	seen := make([]int, m)
	if !weighted {
		stats, err := tree.Compare(ref, c11chan(comps, errAt), false, false, cpus)
		sxAssert(err == nil, "Compare starts")
		for st := range stats {
			sxAssert(st.Id >= 0 && st.Id < m, "record id in range")
			seen[st.Id]++
			if st.Id == errAt {
				sxAssert(st.Err != nil, "the error of an erroneous tree reaches the caller")
				continue
			}
			sxAssert(st.Err == nil, "no error for a valid tree")
			sxAssert(st.Tree1 == want[st.Id].o1 && st.Tree2 == want[st.Id].o2 && st.Common == want[st.Id].c, "per-tree counts equal the single-threaded result")
		}
	} else {
		stats, err := tree.CompareWeighted(ref, c11chan(comps, errAt), false, false, cpus)
		sxAssert(err == nil, "CompareWeighted starts")
		// the records are collected first and examined afterwards
		var recs []tree.WeightedBipartitionStats
		for st := range stats {
			recs = append(recs, st)
		}
		for _, st := range recs {
			sxAssert(st.Id >= 0 && st.Id < m, "record id in range")
			seen[st.Id]++
			if st.Id == errAt {
				sxAssert(st.Err != nil, "the error of an erroneous tree reaches the caller")
				continue
			}
			sxAssert(st.Err == nil, "no error for a valid tree")
			sxAssert(len(st.Tree1) == want[st.Id].o1 && len(st.Tree2) == want[st.Id].o2 && len(st.Common) == want[st.Id].c, "per-tree terms equal the single-threaded result")
			var wc, w2 []float64
			for _, e := range comps[st.Id].Edges() {
				if e.Right().Tip() {
					continue
				}
				k := canonMask(maskBelow(e.Right(), e.Left(), nil), fullm)
				if r, ok := rsplits[k]; ok {
					wc = append(wc, r.length-e.Length())
				} else {
					w2 = append(w2, e.Length())
				}
			}
			sxAssert(eqFloats(st.Common, wc) && eqFloats(st.Tree2, w2), "per-tree weighted terms are those of the tree's own branches")
		}
	}
	for i := range seen {
		sxAssert(seen[i] == 1, "exactly one record per tree")
	}
	sxReach("checked")
}

// H_C11_support: FBP / TBE with several workers = single-threaded definition,
// no race, termination with an erroneous tree.
func H_C11_support() {
	n := sxParam("n", 4)
	m := sxParam("m", 2)
	cpus := 1 + sxChoose("cpus", sxParam("maxcpus", 3))
	fixed := sxParam("fixed", 0) == 1
	if fixed {
		shapeCode = 1
	}
	ref := genTree(n, 0, sxParam("binary", 1) == 1)
	boots := make([]*tree.Tree, m)
	for i := range boots {
		if fixed {
			shapeCode = i
		}
		boots[i] = genTree(n, 0, sxParam("binary", 1) == 1)
	}
	shapeCode = -1
	errAt := -1
	if sxParam("noerr", 0) == 0 {
		errAt = sxChoose("errat", m+1) - 1
	}
	tbe := sxParam("tbe", 0) == 1
	full := uint64(1)<<uint(n) - 1
	var bsets []map[uint64]bool
	var bsides [][]uint64
	for _, b := range boots {
		bsets = append(bsets, innerSplitSet(b))
		bsides = append(bsides, allSides(b))
	}
	if tbe {
		sxAssert(ref.ReinitIndexes() == nil, "ReinitIndexes")
	}
	c11mode()
	sxReach("ready")
	var err error
	if tbe {
		_, err = support.TBE(ref, c11chan(boots, errAt), cpus, false, false, false, 0.3, nil, nil)
	} else {
		err = support.FBP(ref, c11chan(boots, errAt), cpus, nil)
	}
	if errAt >= 0 {
		sxAssert(err != nil, "the error of an erroneous tree reaches the caller")
		sxReach("error-returned")
		return
	}
	sxAssert(err == nil, "no error for valid trees")
	for _, e := range ref.Edges() {
		if e.Right().Tip() {
			sxAssert(e.Support() == tree.NIL_SUPPORT, "tip branches receive no support")
			continue
		}
		side := maskBelow(e.Right(), e.Left(), nil)
		p := popcount(side)
		if n-p < p {
			p = n - p
		}
		if p < 2 {
			continue
		}
		k := canonMask(side, full)
		if !tbe {
			c := 0
			for _, s := range bsets {
				if s[k] {
					c++
				}
			}
			sxAssert(e.Support() == float64(c)/float64(m), "FBP with several workers = single-threaded value")
		} else {
			sum := 0.0
			for i := range boots {
				best := n
				for _, s := range bsides[i] {
					if d := transferDist(side, s, n); d < best {
						best = d
					}
				}
				sum += float64(best)
			}
			sxAssert(e.Support() == 1.0-(sum/float64(m))/float64(p-1), "TBE with several workers = single-threaded value")
		}
	}
	sxReach("checked")
}
