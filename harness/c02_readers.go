package zzvh

import (
	"bufio"
	"fmt"
	"strings"

	"github.com/evolbioinfo/gotree/io/nextstrain"
	"github.com/evolbioinfo/gotree/io/phyloxml"
	"github.com/evolbioinfo/gotree/io/utils"
	"github.com/evolbioinfo/gotree/tree"
)

// use every delivered tree: traverse, index, write back
func c02use(t *tree.Tree) {
	if t == nil {
		return
	}
	_ = t.Newick()
	_ = t.Nodes()
	_ = t.Edges()
	_ = t.Tips()
	_ = t.TipEdges()
	_ = t.InternalEdges()
	if t.ReinitIndexes() == nil {
		_ = t.Newick()
		for _, e := range t.Edges() {
			_, _ = e.TopoDepth()
		}
	}
}

func c02readOne(input string, format int) {
	t, err := utils.ReadTreeReader(bufio.NewReader(strings.NewReader(input)), format)
	if err == nil {
		sxAssert(t != nil, "no error and no tree")
		sxReach("delivered")
		c02use(t)
	} else {
		sxReach("refused")
	}
}

func c02readMulti(input string, format int) {
	ch := utils.ReadMultiTrees(bufio.NewReader(strings.NewReader(input)), format)
	n := 0
	for tr := range ch {
		n++
		sxAssert(n < 64, "reader delivers a bounded number of records")
		if tr.Err == nil {
			sxAssert(tr.Tree != nil, "record without error and without tree")
			sxReach("delivered")
			c02use(tr.Tree)
		} else {
			sxReach("refused")
		}
	}
}

func c02bytes(n int, tag string) []byte {
	b := make([]byte, n)
	for i := range b {
		b[i] = sxByte(fmt.Sprintf("%s%d", tag, i))
		sxAssume(b[i] < 0x80)
	}
	return b
}

// H_C02_newick_bytes: every input of N ASCII bytes (NUL included) to the single-tree Newick reader.
func H_C02_newick_bytes() {
	n := sxParam("N", 4)
	in := string(c02bytes(n, "b"))
	sxReach("input")
	c02readOne(in, utils.FORMAT_NEWICK)
}

// H_C02_multi_bytes: every input of N ASCII bytes to the multi-tree Newick reader
// (ReadUntilSemiColon + parser, through the reader goroutine).
func H_C02_multi_bytes() {
	n := sxParam("N", 3)
	in := string(c02bytes(n, "b"))
	sxReach("input")
	c02readMulti(in, utils.FORMAT_NEWICK)
}

var c02newickDocs = []string{
	"((a:1,b:2)0.9/0.01:3[c],(c,d)x[y]:0.5,e)r;",
	"(a,b)0.9/0.01;",
	"(a[&c=1]:1[bc],(b:2,c:3)n1:4)[rc];",
	"(a,b);\n(c,(d,e));\n",
	" \n(a,b);  \n \n",
}

var c02nexusDocs = []string{
	"#NEXUS\nBEGIN TAXA;\n TaxLabels a b c;\nEND;\nBEGIN TREES;\n Tree t1=(a,(b,c));\nEND;\n",
	"#NEXUS\nBEGIN TREES;\n TRANSLATE 1 a, 2 b, 3 c;\n Tree t1=[&R](1:1,(2:2,3:3)0.5:1);\n Tree t2=(1,2,3);\nEND;\n",
	"#NEXUS\nBEGIN DATA;\n Dimensions ntax=2 nchar=2;\n Format datatype=dna missing=? gap=-;\n Matrix\n a AC\n b A-\n;\nEND;\nBEGIN TREES;\n Tree t=(a,b);\nEND;\n",
	"#NEXUS\n[comment]\nBEGIN FOO;\n bar x=y;\nEND;\nBEGIN TREES;\n Tree t=(a,b);\nEND;\n",
}

// template with a truncation point and k positions holding arbitrary ASCII bytes
func c02template(doc string, k int) string {
	mode := sxChoose("mutation", 2)
	if mode == 0 {
		// every prefix
		return doc[:sxChoose("cut", len(doc)+1)]
	}
	b := []byte(doc)
	pos := -1
	for h := 0; h < k; h++ {
		p := sxChoose(fmt.Sprintf("hole%d", h), len(doc))
		if p <= pos {
			sxAssume(false)
		}
		pos = p
		c := sxByte(fmt.Sprintf("h%d", h))
		sxAssume(c < 0x80)
		b[p] = c
	}
	return string(b)
}

// H_C02_newick_template: truncations and byte mutations of valid Newick documents.
func H_C02_newick_template() {
	doc := c02newickDocs[sxChoose("doc", len(c02newickDocs))]
	in := c02template(doc, sxParam("k", 1))
	sxReach("input")
	if sxChoose("reader", 2) == 0 {
		c02readOne(in, utils.FORMAT_NEWICK)
	} else {
		c02readMulti(in, utils.FORMAT_NEWICK)
	}
}

// H_C02_nexus_template: truncations and byte mutations of valid Nexus documents.
func H_C02_nexus_template() {
	d := sxParam("doc", -1)
	if d < 0 {
		d = sxChoose("doc", len(c02nexusDocs))
	}
	in := c02template(c02nexusDocs[d], sxParam("k", 1))
	sxReach("input")
	if sxChoose("reader", 2) == 0 {
		c02readOne(in, utils.FORMAT_NEXUS)
	} else {
		c02readMulti(in, utils.FORMAT_NEXUS)
	}
}

// ---------------------------------------------------------------------------
// decoded PhyloXML / Nextstrain documents of any small shape (childless root,
// single children, empty names, missing values): conversion never crashes;
// every delivered tree can be used.

// document shapes: each template is the list of the parent index of every clade
// (-1 = root); they include a childless root, single children, chains.
var c02templates = [][]int{
	{-1},
	{-1, 0},
	{-1, 0, 0},
	{-1, 0, 1},
	{-1, 0, 0, 0},
	{-1, 0, 0, 1, 1},
	{-1, 0, 1, 2},
	{-1, 0, 0, 1},
}

func c02clade(tpl []int, idx int, tag string) phyloxml.Clade {
	c := phyloxml.Clade{}
	switch sxChoose(fmt.Sprintf("%sv%d", tag, idx), 4) {
	case 0:
		c.Name = fmt.Sprintf("x%s%d", tag, idx)
		l, cf := sxLen(fmt.Sprintf("%sL%d", tag, idx)), sxLen(fmt.Sprintf("%sC%d", tag, idx))
		sxAssume(l >= 0 && cf >= 0)
		c13setFloat(&c.BranchLength, l)
		c13setFloat(&c.Confidence, cf)
	case 1:
	case 2:
		c.Tax.ScientificName = fmt.Sprintf("s%s%d", tag, idx)
		l := sxLen(fmt.Sprintf("%sL%d", tag, idx))
		sxAssume(l >= 0)
		c13setFloat(&c.BranchLength, l)
	case 3:
		c.Name = fmt.Sprintf("x%s%d", tag, idx)
	}
	for k, p := range tpl {
		if p == idx {
			c.Clades = append(c.Clades, c02clade(tpl, k, tag))
		}
	}
	return c
}

func H_C02_phyloxml_units() {
	px := &phyloxml.PhyloXML{}
	switch sxChoose("nphylo", 3) {
	case 1:
		tpl := c02templates[sxChoose("template", len(c02templates))]
		px.Phylogenies = append(px.Phylogenies, phyloxml.Phylogeny{Root: c02clade(tpl, 0, "p")})
	case 2:
		// two phylogenies, the second one without any name
		px.Phylogenies = append(px.Phylogenies, phyloxml.Phylogeny{Root: c02clade(c02templates[2], 0, "p")})
		px.Phylogenies = append(px.Phylogenies, phyloxml.Phylogeny{Root: phyloxml.Clade{Clades: []phyloxml.Clade{{}, {}}}})
	}
	sxReach("input")
	px.IterateTrees(func(t *tree.Tree, err error) {
		if err == nil {
			sxReach("delivered")
			c02use(t)
		} else {
			sxReach("refused")
		}
	})
	t, err := px.FirstTree()
	if err == nil && t != nil {
		c02use(t)
	}
}

func c02nsnode(tpl []int, idx int) nextstrain.NsNode {
	c := nextstrain.NsNode{}
	switch sxChoose(fmt.Sprintf("v%d", idx), 3) {
	case 0:
		c.Name = fmt.Sprintf("x%d", idx)
	case 1:
	case 2:
		c.Name = fmt.Sprintf("x%d", idx)
		c.BranchAttr.Labels.Aa = "ORF1a: A1T, B2C"
		c.Attributes.Country.Value = "a b,c:d"
	}
	c.Attributes.Divergence = sxLen(fmt.Sprintf("D%d", idx))
	for k, p := range tpl {
		if p == idx {
			c.Children = append(c.Children, c02nsnode(tpl, k))
		}
	}
	return c
}

func H_C02_nextstrain_units() {
	ns := &nextstrain.Nextstrain{Version: "v2", Tree: c02nsnode(c02templates[sxChoose("template", len(c02templates))], 0)}
	sxReach("input")
	ns.IterateTrees(func(t *tree.Tree, err error) {
		if err == nil {
			sxReach("delivered")
			c02use(t)
		} else {
			sxReach("refused")
		}
	})
	t, err := ns.FirstTree()
	if err == nil && t != nil {
		c02use(t)
	}
}
