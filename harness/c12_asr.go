package zzvh

import (
	"fmt"

	"github.com/evolbioinfo/goalign/align"
	"github.com/evolbioinfo/gotree/asr"
	"github.com/evolbioinfo/gotree/tree"
)

// IUPAC nucleotide codes used at the tips and the states they stand for
var c12iupac = []struct {
	c   byte
	set []int // indexes into ACGT
}{
	{'A', []int{0}}, {'C', []int{1}}, {'G', []int{2}}, {'T', []int{3}},
	{'R', []int{0, 2}}, {'Y', []int{1, 3}}, {'N', []int{0, 1, 2, 3}},
}

// minimum number of changes when every tip may take any state of its set
func c12bruteSets(t *tree.Tree, tipSet map[*tree.Node][]int, k int) int {
	nodes := t.Nodes()
	edges := t.Edges()
	assign := map[*tree.Node]int{}
	total := 1
	for range nodes {
		total *= k
	}
	best := 1 << 30
	for code := 0; code < total; code++ {
		c := code
		ok := true
		for _, nd := range nodes {
			s := c % k
			c /= k
			assign[nd] = s
			if nd.Tip() {
				in := false
				for _, x := range tipSet[nd] {
					if x == s {
						in = true
					}
				}
				if !in {
					ok = false
				}
			}
		}
		if !ok {
			continue
		}
		cost := 0
		for _, e := range edges {
			if assign[e.Left()] != assign[e.Right()] {
				cost++
			}
		}
		if cost < best {
			best = cost
		}
	}
	return best
}

// H_C12_asr: sequence reconstruction: per-site step counts equal the true
// minimum with IUPAC ambiguity codes at the tips meaning "any of these states".
func H_C12_asr() {
	n := sxParam("n", 3)
	t := genTree(n, 2, false)
	ncodes := sxParam("codes", len(c12iupac))
	algos := []int{asr.ALGO_DOWNPASS, asr.ALGO_DELTRAN, asr.ALGO_ACCTRAN}
	algo := algos[sxChoose("algo", len(algos))]
	a := align.NewAlign(align.NUCLEOTIDS)
	tipSet := map[*tree.Node][]int{}
	for _, tp := range t.Tips() {
		c := c12iupac[sxChoose("code_"+tp.Name(), ncodes)]
		// two sites: the chosen code, and a constant column
		sxAssert(a.AddSequence(tp.Name(), string([]byte{c.c, 'A'}), "") == nil, "AddSequence")
		tipSet[tp] = c.set
	}
	best := c12bruteSets(t, tipSet, 4)
	sxReach("ready")
	nsteps, err := asr.ParsimonyAsr(t, a, algo, false)
	sxAssert(err == nil, "ParsimonyAsr succeeds")
	sxAssert(len(nsteps) >= 2, "one step count per site")
	sxAssert(nsteps[0] == best, "site step count = true minimum (IUPAC codes = any of these states)")
	sxAssert(nsteps[1] == 0, "a constant site needs no step")
	sxReach("checked")
}

// H_C18_asr: sequence reconstruction on a protein alignment with the
// any-amino-acid code X must not depend on map iteration order.
func H_C18_asr() {
	shapeCode = 0
	t := genTree(sxParam("n", 3), 0, false)
	shapeCode = -1
	a := align.NewAlign(align.AMINOACIDS)
	seqs := []string{"AX", "XA", "CC", "AC", "XX"}
	for i, tp := range t.Tips() {
		sxAssert(a.AddSequence(tp.Name(), seqs[i%len(seqs)], "") == nil, "AddSequence")
	}
	algo := []int{asr.ALGO_DOWNPASS, asr.ALGO_DELTRAN, asr.ALGO_ACCTRAN}[sxChoose("algo", 3)]
	sxOpt("nondet-map", true)
	nsteps, err := asr.ParsimonyAsr(t, a, algo, false)
	sxObserve("class", fmt.Sprintf("algo=%d", algo))
	sxObserve("outcome", fmt.Sprint(err == nil, nsteps)+" "+t.Newick())
}
