package zzvh

import (
	"fmt"
	"strings"

	"github.com/evolbioinfo/goalign/align"
	"github.com/evolbioinfo/gotree/acr"
	"github.com/evolbioinfo/gotree/asr"
	"github.com/evolbioinfo/gotree/tree"
)

// IUPAC nucleotide codes used at the tips and the states they stand for
var c12iupac = []struct {
	c   byte
	set []int // indexes into ACGT
}{
	{'A', []int{0}}, {'C', []int{1}}, {'G', []int{2}}, {'T', []int{3}},
	{'R', []int{0, 2}}, {'Y', []int{1, 3}}, {'N', []int{0, 1, 2, 3}},
}

// minimum number of changes when every tip may take any state of its set:
// all assignments of the inner nodes; a tip costs a change exactly when the
// state of its neighbour is not in its set
func c12bruteSets(t *tree.Tree, tipSet map[*tree.Node][]int, k int) int {
	var inner []*tree.Node
	for _, nd := range t.Nodes() {
		if !nd.Tip() {
			inner = append(inner, nd)
		}
	}
	edges := t.Edges()
	assign := map[*tree.Node]int{}
	total := 1
	for range inner {
		total *= k
	}
	allowed := func(tip *tree.Node, s int) bool {
		for _, x := range tipSet[tip] {
			if x == s {
				return true
			}
		}
		return false
	}
	best := 1 << 30
	for code := 0; code < total; code++ {
		c := code
		for _, nd := range inner {
			assign[nd] = c % k
			c /= k
		}
		cost := 0
		for _, e := range edges {
			l, r := e.Left(), e.Right()
			switch {
			case l.Tip() && r.Tip():
				// (two-tip tree: no inner node)
				common := false
				for _, x := range tipSet[l] {
					if allowed(r, x) {
						common = true
					}
				}
				if !common {
					cost++
				}
			case r.Tip():
				if !allowed(r, assign[l]) {
					cost++
				}
			case l.Tip():
				if !allowed(l, assign[r]) {
					cost++
				}
			default:
				if assign[l] != assign[r] {
					cost++
				}
			}
		}
		if cost < best {
			best = cost
		}
	}
	return best
}

// H_C12_asr: sequence reconstruction: per-site step counts equal the true
// minimum with IUPAC ambiguity codes at the tips meaning "any of these states".
func H_C12_asr() {
	n := sxParam("n", 3)
	t := genTree(n, 2, false)
	ncodes := sxParam("codes", len(c12iupac))
	// codemask (bit i = code i of the table) selects the codes used at the tips
	var codes []int
	if m := sxParam("codemask", 0); m != 0 {
		for i := range c12iupac {
			if m&(1<<uint(i)) != 0 {
				codes = append(codes, i)
			}
		}
	} else {
		for i := 0; i < ncodes; i++ {
			codes = append(codes, i)
		}
	}
	algos := []int{asr.ALGO_DOWNPASS, asr.ALGO_DELTRAN, asr.ALGO_ACCTRAN}
	algo := algos[sxChoose("algo", len(algos))]
	a := align.NewAlign(align.NUCLEOTIDS)
	tipSet := map[*tree.Node][]int{}
	for _, tp := range t.Tips() {
		c := c12iupac[codes[sxChoose("code_"+tp.Name(), len(codes))]]
		// two sites: the chosen code, and a constant column
		sxAssert(a.AddSequence(tp.Name(), string([]byte{c.c, 'A'}), "") == nil, "AddSequence")
		tipSet[tp] = c.set
	}
	best := c12bruteSets(t, tipSet, 4)
	sxReach("ready")
	nsteps, err := asr.ParsimonyAsr(t, a, algo, false)
	sxAssert(err == nil, "ParsimonyAsr succeeds")
	sxAssert(len(nsteps) >= 2, "one step count per site")
	sxAssert(nsteps[0] == best, "site step count = true minimum (IUPAC codes = any of these states)")
	sxAssert(nsteps[1] == 0, "a constant site needs no step")
	sxReach("checked")
}

// H_C18_asr: sequence reconstruction on a protein alignment with the
// any-amino-acid code X must not depend on map iteration order.
func H_C18_asr() {
	shapeCode = 0
	t := genTree(sxParam("n", 3), 0, false)
	shapeCode = -1
	a := align.NewAlign(align.AMINOACIDS)
	seqs := []string{"AX", "XA", "CC", "AC", "XX"}
	for i, tp := range t.Tips() {
		sxAssert(a.AddSequence(tp.Name(), seqs[i%len(seqs)], "") == nil, "AddSequence")
	}
	algo := []int{asr.ALGO_DOWNPASS, asr.ALGO_DELTRAN, asr.ALGO_ACCTRAN}[sxChoose("algo", 3)]
	sxOpt("nondet-map", true)
	nsteps, err := asr.ParsimonyAsr(t, a, algo, false)
	sxObserve("class", fmt.Sprintf("algo=%d", algo))
	sxObserve("outcome", fmt.Sprint(err == nil, nsteps)+" "+t.Newick())
}

// per-site state sets encoded by asr in a node comment: "{AC}G" -> [{A,C},{G}]
func c12asrSites(s string) []string {
	var out []string
	for i := 0; i < len(s); i++ {
		if s[i] == '{' {
			j := i + 1
			for j < len(s) && s[j] != '}' {
				j++
			}
			out = append(out, s[i+1:j])
			i = j
		} else {
			out = append(out, s[i:i+1])
		}
	}
	return out
}

// H_C12_asr_vs_acr: on unambiguous nucleotide alignments the sequence
// reconstruction agrees site by site with the single-character reconstruction
// (same step count, same state set at every node).
func H_C12_asr_vs_acr() {
	n := sxParam("n", 4)
	t := genTree(n, 2, false)
	t2 := t.Clone()
	algoIdx := sxChoose("algo", 3)
	asrAlgo := []int{asr.ALGO_DOWNPASS, asr.ALGO_DELTRAN, asr.ALGO_ACCTRAN}[algoIdx]
	acrAlgo := []int{acr.ALGO_DOWNPASS, acr.ALGO_DELTRAN, acr.ALGO_ACCTRAN}[algoIdx]
	letters := "ACG"[:sxParam("k", 3)]
	a := align.NewAlign(align.NUCLEOTIDS)
	chars := map[string]string{}
	for _, tp := range t.Tips() {
		c := letters[sxChoose("state_"+tp.Name(), len(letters))]
		sxAssert(a.AddSequence(tp.Name(), string([]byte{c}), "") == nil, "AddSequence")
		chars[tp.Name()] = string([]byte{c})
	}
	sxReach("ready")
	nsteps, err := asr.ParsimonyAsr(t, a, asrAlgo, false)
	sxAssert(err == nil, "ParsimonyAsr succeeds")
	_, steps2, err2 := acr.ParsimonyAcr(t2, chars, acrAlgo, false)
	sxAssert(err2 == nil, "ParsimonyAcr succeeds")
	sxAssert(len(nsteps) >= 1 && nsteps[0] == steps2, "same number of steps as the single-character reconstruction")
	n1, n2 := t.Nodes(), t2.Nodes()
	sxAssert(len(n1) == len(n2), "same nodes")
	for i := range n1 {
		if i >= len(n2) {
			break
		}
		c1, c2 := n1[i].Comments(), n2[i].Comments()
		sxAssert(len(c1) >= 1 && len(c2) >= 1, "every node is annotated")
		if len(c1) == 0 || len(c2) == 0 {
			continue
		}
		sites := c12asrSites(c1[len(c1)-1])
		sxAssert(len(sites) == 1, "one site")
		if len(sites) != 1 {
			continue
		}
		// acr: states separated by '|', sorted like the alphabet
		want := strings.ReplaceAll(c2[len(c2)-1], "|", "")
		sxAssert(c12sameSet(sites[0], want), "same state set at every node as the single-character reconstruction")
	}
	sxReach("checked")
}

// same set of state letters, whatever their order
func c12sameSet(a, b string) bool {
	if len(a) != len(b) {
		return false
	}
	for i := 0; i < len(a); i++ {
		if !strings.Contains(b, a[i:i+1]) {
			return false
		}
	}
	return true
}
