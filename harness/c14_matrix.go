package zzvh

import (
	"fmt"

	"github.com/evolbioinfo/gotree/tree"
)

// metric term of one branch, as documented by ToDistanceMatrix
func c14metric(metric int) func(e *tree.Edge) float64 {
	return func(e *tree.Edge) float64 {
		switch metric {
		case tree.DISTANCE_METRIC_BOOTS:
			if e.Support() == tree.NIL_SUPPORT {
				return 1.0
			}
			return e.Support()
		case tree.DISTANCE_METRIC_NONE:
			return 1.0
		}
		if e.Length() == tree.NIL_LENGTH {
			return 0.0
		}
		return e.Length()
	}
}

var c14metrics = []int{tree.DISTANCE_METRIC_BRLEN, tree.DISTANCE_METRIC_BOOTS, tree.DISTANCE_METRIC_NONE, 17}

// H_C14_matrix: ToDistanceMatrix = path sums of the metric terms, symmetric,
// zero diagonal, rows in tip-name order.
func H_C14_matrix() {
	n := sxParam("n", 4)
	t := genTree(n, 2, false)
	decorate(t, sxParam("lenmode", lenAll), sxParam("supmode", supPresent))
	metric := c14metrics[sxChoose("metric", len(c14metrics))]
	// the tree may have been indexed before, and tips renamed since (stale index)
	switch sxChoose("prep", 3) {
	case 1:
		sxAssert(t.ReinitIndexes() == nil, "ReinitIndexes")
	case 2:
		sxAssert(t.ReinitIndexes() == nil, "ReinitIndexes")
		tp := t.Tips()
		a, b := tp[0].Name(), tp[len(tp)-1].Name()
		tp[0].SetName(b)
		tp[len(tp)-1].SetName(a)
	}
	want := distOf(t, n, c14metric(metric))
	sxReach("ready")
	m, tips := t.ToDistanceMatrix(metric)
	sxAssert(len(m) == n && len(tips) == n, "one row per tip")
	for i := 0; i < n; i++ {
		sxAssert(tips[i].Name() == tipName(i), "rows follow tip-name order")
		sxAssert(len(m[i]) == n, "square matrix")
	}
	for i := 0; i < n; i++ {
		sxAssert(m[i][i] == 0, "zero diagonal")
		for j := 0; j < n; j++ {
			sxAssert(m[i][j] == want[i][j], "entry = sum of the metric terms over the path")
			sxAssert(m[i][j] == m[j][i], "symmetric")
		}
	}
	sxReach("checked")
}

// H_C14_avg: AvgDistanceMatrix = entrywise mean over the trees.
func H_C14_avg() {
	n := sxParam("n", 4)
	k := sxParam("k", 2)
	metric := c14metrics[sxChoose("metric", 3)]
	trees := make([]*tree.Tree, k)
	sum := make([][]float64, n)
	for i := range sum {
		sum[i] = make([]float64, n)
	}
	for x := 0; x < k; x++ {
		t := genTree(n, sxParam("rootedmode", 0), false)
		for j, e := range t.Edges() {
			l := sxLen(fmt.Sprintf("len%d_%d", x, j))
			sxAssume(l >= 0)
			e.SetLength(l)
		}
		trees[x] = t
		d := distOf(t, n, c14metric(metric))
		for i := 0; i < n; i++ {
			for j := 0; j < n; j++ {
				sum[i][j] += d[i][j]
			}
		}
	}
	sxReach("ready")
	m, tips, err := tree.AvgDistanceMatrix(metric, treesChan(trees))
	sxAssert(err == nil, "AvgDistanceMatrix succeeds on trees with the same taxa")
	sxAssert(len(m) == n && len(tips) == n, "one row per tip")
	for i := 0; i < n; i++ {
		sxAssert(tips[i].Name() == tipName(i), "rows follow tip-name order")
		for j := 0; j < n; j++ {
			sxAssert(m[i][j] == sum[i][j]/float64(k), "entry = mean over the trees")
		}
	}
	sxReach("checked")
}

// H_C14_cut: CutEdgesMaxLength partitions the tips into the groups connected
// by branches shorter than the threshold.
func H_C14_cut() {
	n := sxParam("n", 4)
	var t *tree.Tree
	if sxParam("stem", 0) == 1 {
		// a named root of degree one above the tree ("((t0,t1):l)t2;"): gotree
		// counts such a root among the tips, so it belongs to the partition
		s := genShape(n, false)
		root := rootShape(s, sxChoose("rooted", 2) == 1)
		top := s.addNode(n)
		s.link(top, root)
		t = buildTree(s, top)
		t.Root().SetName(tipName(n))
		n++
	} else {
		t = genTree(n, 2, false)
	}
	// lenmode 2: a branch may have no length; the code documents nothing else
	// than the numeric test `length < threshold`, with -1 standing for "absent"
	decorate(t, sxParam("lenmode", lenAll), supNone)
	theta := sxLen("theta")
	// reference: union-find over tips along branches with length < theta
	nodes := t.Nodes()
	id := map[*tree.Node]int{}
	parent := make([]int, len(nodes))
	for i, nd := range nodes {
		id[nd] = i
		parent[i] = i
	}
	var find func(x int) int
	find = func(x int) int {
		for parent[x] != x {
			x = parent[x]
		}
		return x
	}
	for _, e := range t.Edges() {
		if e.Length() < theta {
			a, b := find(id[e.Left()]), find(id[e.Right()])
			if a != b {
				parent[a] = b
			}
		}
	}
	sxReach("ready")
	bags, err := t.CutEdgesMaxLength(theta)
	sxAssert(err == nil, "CutEdgesMaxLength succeeds")
	bagOf := make([]int, n)
	for i := range bagOf {
		bagOf[i] = -1
	}
	for b, bag := range bags {
		sxAssert(bag.Size() > 0, "no empty group")
		for _, tp := range bag.Tips() {
			l := tipLabel(tp.Name(), nil)
			sxAssert(l < n, "groups contain tips of the tree")
			if l < n {
				sxAssert(bagOf[l] == -1, "every tip in at most one group")
				bagOf[l] = b
			}
		}
	}
	tips := t.Tips()
	for _, a := range tips {
		la := tipLabel(a.Name(), nil)
		sxAssert(bagOf[la] >= 0, "every tip in some group")
		for _, b := range tips {
			lb := tipLabel(b.Name(), nil)
			connected := find(id[a]) == find(id[b])
			sxAssert((bagOf[la] == bagOf[lb]) == connected, "same group iff connected by branches shorter than the threshold")
		}
	}
	sxReach("checked")
}
