package zzvh

import (
	"bufio"
	"fmt"
	"strconv"
	"strings"

	"github.com/evolbioinfo/gotree/io/nextstrain"
	"github.com/evolbioinfo/gotree/io/nexus"
	"github.com/evolbioinfo/gotree/io/phyloxml"
	"github.com/evolbioinfo/gotree/io/utils"
	"github.com/evolbioinfo/gotree/tree"
)

// decorated source trees for the conversions: lengths all/none, supports on inner branches
func c13tree(n int, tag string) *tree.Tree {
	t := genTree(n, 2, false)
	withLen := sxChoose(tag+"lens", 2) == 1
	for i, e := range t.Edges() {
		if withLen {
			l := sxLen(fmt.Sprintf("%slen%d", tag, i))
			sxAssume(l >= 0)
			e.SetLength(l)
		}
		if !e.Right().Tip() && withLen {
			s := sxLen(fmt.Sprintf("%ssup%d", tag, i))
			sxAssume(s >= 0)
			e.SetSupport(s)
		}
	}
	return t
}

// H_C13_nexus: Newick -> Nexus (with / without translate table) -> parser gives the same trees, in order.
func H_C13_nexus() {
	n := sxParam("n", 4)
	k := 1 + sxChoose("ntrees", sxParam("maxtrees", 2))
	translate := sxChoose("translate", 2) == 1
	src := make([]*tree.Tree, k)
	ch := make(chan tree.Trees, k)
	for i := range src {
		src[i] = c13tree(n, fmt.Sprintf("t%d_", i))
		ch <- tree.Trees{Tree: src[i], Id: i}
	}
	close(ch)
	sxReach("ready")
	text, err := nexus.WriteNexus(ch, translate)
	sxAssert(err == nil, "WriteNexus succeeds")
	nx, err := nexus.NewParser(strings.NewReader(text)).Parse()
	sxAssert(err == nil, "the written Nexus text parses")
	if err != nil {
		return
	}
	sxAssert(nx.NTrees() == k, "every tree of the file is delivered")
	i := 0
	nx.IterateTrees(func(name string, t *tree.Tree) {
		if i < k {
			c01same(src[i].Root(), nil, t.Root(), nil, nil, nil)
		}
		i++
	})
	sxAssert(i == k, "trees delivered in file order, none skipped")
	// single-tree entry point = first tree of the multi-tree reader
	first, err := utils.ReadTreeReader(bufio.NewReader(strings.NewReader(text)), utils.FORMAT_NEXUS)
	sxAssert(err == nil && first != nil, "ReadTreeReader reads the Nexus text")
	id := 0
	for rec := range utils.ReadMultiTrees(bufio.NewReader(strings.NewReader(text)), utils.FORMAT_NEXUS) {
		sxAssert(rec.Err == nil && rec.Tree != nil, "multi-tree reader delivers trees")
		sxAssert(rec.Id == id, "consecutive identifiers")
		if id == 0 && rec.Tree != nil && first != nil {
			c01same(first.Root(), nil, rec.Tree.Root(), nil, nil, nil)
		}
		if id < k && rec.Tree != nil {
			c01same(src[id].Root(), nil, rec.Tree.Root(), nil, nil, nil)
		}
		id++
	}
	sxAssert(id == k, "multi-tree reader delivers every tree")
	sxReach("checked")
}

// H_C13_nexus_many: a list long enough for generated tree names to leave
// lexicographic order (tree10 < tree2): written as Nexus and read back, every
// tree comes back at its position.
func H_C13_nexus_many() {
	k := sxParam("ntrees", 12)
	translate := sxChoose("translate", 2) == 1
	src := make([]*tree.Tree, k)
	ch := make(chan tree.Trees, k)
	shapeCode = -1
	for i := range src {
		// three-taxon stars told apart by their branch lengths; one length symbolic
		t := buildTree(genShape(3, false), 0)
		for j, e := range t.Edges() {
			e.SetLength(float64(1 + i*3 + j))
		}
		if i == sxParam("symtree", 10) {
			l := sxLen("len")
			sxAssume(l >= 0)
			t.Edges()[0].SetLength(l)
		}
		src[i] = t
		ch <- tree.Trees{Tree: t, Id: i}
	}
	close(ch)
	sxReach("ready")
	text, err := nexus.WriteNexus(ch, translate)
	sxAssert(err == nil, "WriteNexus succeeds")
	id := 0
	for rec := range utils.ReadMultiTrees(bufio.NewReader(strings.NewReader(text)), utils.FORMAT_NEXUS) {
		sxAssert(rec.Err == nil && rec.Tree != nil, "multi-tree reader delivers trees")
		sxAssert(rec.Id == id, "consecutive identifiers")
		if id < k && rec.Tree != nil {
			c01same(src[id].Root(), nil, rec.Tree.Root(), nil, nil, nil)
		}
		id++
	}
	sxAssert(id == k, "multi-tree reader delivers every tree")
	sxReach("checked")
}

// H_C13_nexus_names: a hand-written TREES block whose tree names come in any
// order (and may repeat): trees are delivered in file order under their names.
func H_C13_nexus_names() {
	n := sxParam("n", 4)
	k := 2 + sxChoose("ntrees", sxParam("maxtrees", 2)-1)
	pool := []string{"b", "a", "tree10", "tree2"}
	src := make([]*tree.Tree, k)
	names := make([]string, k)
	text := "#NEXUS\nBEGIN TREES;\n"
	for i := range src {
		src[i] = genTree(n, 0, sxParam("binary", 0) == 1)
		names[i] = pool[sxChoose(fmt.Sprintf("name%d", i), len(pool))]
		text += "  TREE " + names[i] + " = " + src[i].Newick() + "\n"
	}
	text += "END;\n"
	sxReach("ready")
	nx, err := nexus.NewParser(strings.NewReader(text)).Parse()
	sxAssert(err == nil, "the Nexus text parses")
	if err != nil {
		return
	}
	sxAssert(nx.NTrees() == k, "every tree of the file is delivered")
	i := 0
	nx.IterateTrees(func(name string, t *tree.Tree) {
		if i < k {
			sxAssert(name == names[i], "tree names in file order")
			c01same(src[i].Root(), nil, t.Root(), nil, nil, nil)
		}
		i++
	})
	sxAssert(i == k, "trees delivered in file order, none skipped")
	first, err := utils.ReadTreeReader(bufio.NewReader(strings.NewReader(text)), utils.FORMAT_NEXUS)
	sxAssert(err == nil && first != nil, "ReadTreeReader reads the Nexus text")
	if first != nil {
		c01same(src[0].Root(), nil, first.Root(), nil, nil, nil)
	}
	id := 0
	for rec := range utils.ReadMultiTrees(bufio.NewReader(strings.NewReader(text)), utils.FORMAT_NEXUS) {
		sxAssert(rec.Err == nil && rec.Tree != nil, "multi-tree reader delivers trees")
		sxAssert(rec.Id == id, "consecutive identifiers")
		if id < k && rec.Tree != nil {
			c01same(src[id].Root(), nil, rec.Tree.Root(), nil, nil, nil)
		}
		id++
	}
	sxAssert(id == k, "multi-tree reader delivers every tree")
	sxReach("checked")
}

// H_C13_multi_newick: a multi-tree Newick file with arbitrary blank bytes after
// each ';' is delivered tree by tree, in order, with consecutive ids.
func H_C13_multi_newick() {
	n := sxParam("n", 3)
	k := 1 + sxChoose("ntrees", sxParam("maxtrees", 3))
	src := make([]*tree.Tree, k)
	text := ""
	for i := range src {
		src[i] = c13tree(n, fmt.Sprintf("t%d_", i))
		text += src[i].Newick()
		// up to two arbitrary blank characters, then the end of the line
		nb := sxChoose(fmt.Sprintf("blanks%d", i), 3)
		for j := 0; j < nb; j++ {
			b := sxByte(fmt.Sprintf("sep%d_%d", i, j))
			sxAssume(b == ' ' || b == '\t')
			text += string([]byte{b})
		}
		text += "\n"
	}
	sxReach("ready")
	id := 0
	failed := false
	for rec := range utils.ReadMultiTrees(bufio.NewReader(strings.NewReader(text)), utils.FORMAT_NEWICK) {
		if rec.Err != nil {
			failed = true
			continue
		}
		sxAssert(rec.Tree != nil, "record without error has a tree")
		sxAssert(rec.Id == id, "consecutive identifiers")
		if id < k && rec.Tree != nil {
			c01same(src[id].Root(), nil, rec.Tree.Root(), nil, nil, nil)
		}
		id++
	}
	sxAssert(failed || id == k, "every tree is delivered or an error is reported: none silently skipped")
	first, err := utils.ReadTreeReader(bufio.NewReader(strings.NewReader(text)), utils.FORMAT_NEWICK)
	sxAssert(err == nil && first != nil, "ReadTreeReader reads the first tree")
	if first != nil {
		c01same(src[0].Root(), nil, first.Root(), nil, nil, nil)
	}
	sxReach("checked")
}

func c13clade(nd, parent *tree.Node, e *tree.Edge) phyloxml.Clade {
	c := phyloxml.Clade{Name: nd.Name()}
	if e != nil {
		if e.Length() != tree.NIL_LENGTH {
			c13setFloat(&c.BranchLength, e.Length())
		}
		if e.Support() != tree.NIL_SUPPORT {
			c13setFloat(&c.Confidence, e.Support())
		}
	}
	for i, ch := range nd.Neigh() {
		if ch != parent {
			c.Clades = append(c.Clades, c13clade(ch, nd, nd.Edges()[i]))
		}
	}
	return c
}

// H_C13_phyloxml: decoded PhyloXML documents (the xml decoder itself is not encoded):
// every phylogeny converts to the tree it describes; FirstTree = first of IterateTrees.
func H_C13_phyloxml() {
	n := sxParam("n", 4)
	k := 1 + sxChoose("ntrees", sxParam("maxtrees", 2))
	src := make([]*tree.Tree, k)
	px := &phyloxml.PhyloXML{}
	for i := range src {
		t := genTree(n, 2, false)
		// every length/support: any value >= 0 (zero included)
		decorate(t, lenAll, supPresent)
		src[i] = t
		px.Phylogenies = append(px.Phylogenies, phyloxml.Phylogeny{Rooted: t.Rooted(), Root: c13clade(t.Root(), nil, nil)})
	}
	sxReach("ready")
	i := 0
	var firstIter *tree.Tree
	px.IterateTrees(func(t *tree.Tree, err error) {
		sxAssert(err == nil, "phylogeny converts")
		if i < k && err == nil {
			c01same(src[i].Root(), nil, t.Root(), nil, nil, nil)
			c02use(t)
		}
		if i == 0 {
			firstIter = t
		}
		i++
	})
	sxAssert(i == k, "every phylogeny is delivered, in order")
	first, err := px.FirstTree()
	sxAssert(err == nil, "FirstTree succeeds")
	sxAssert(first != nil, "FirstTree returns the first tree of the file")
	if first != nil && firstIter != nil {
		c01same(firstIter.Root(), nil, first.Root(), nil, nil, nil)
	}
	sxReach("checked")
}

// c13setFloat fills an optional float field of a decoded document whatever its
// representation (pointer or plain value), so that the harness still compiles
// if the document types change.
func c13setFloat(dst interface{}, v float64) {
	switch d := dst.(type) {
	case **float64:
		x := v
		*d = &x
	case *float64:
		*d = v
	}
}

// ---------------------------------------------------------------------------
// An independent reader for the subset of PhyloXML that gotree writes
// (elements phylogeny, clade, name, branch_length, confidence).

func c13readXML(s string) ([]*tree.Tree, string) {
	var trees []*tree.Tree
	var cur *tree.Tree
	var stack []*tree.Node
	var edges []*tree.Edge // branch leading to stack[i]
	i := 0
	for i < len(s) {
		if s[i] != '<' {
			i++
			continue
		}
		j := i + 1
		for j < len(s) && s[j] != '>' {
			j++
		}
		if j >= len(s) {
			return nil, "unterminated tag"
		}
		tag := s[i+1 : j]
		k := 0
		for k < len(tag) && tag[k] != ' ' {
			k++
		}
		name := tag[:k]
		i = j + 1
		switch name {
		case "phylogeny":
			cur = tree.NewTree()
			stack, edges = nil, nil
		case "/phylogeny":
			if cur == nil || len(stack) != 0 {
				return nil, "phylogeny not well nested"
			}
			trees = append(trees, cur)
			cur = nil
		case "clade":
			if cur == nil {
				return nil, "clade outside phylogeny"
			}
			nd := cur.NewNode()
			var e *tree.Edge
			if len(stack) == 0 {
				cur.SetRoot(nd)
			} else {
				e = cur.ConnectNodes(stack[len(stack)-1], nd)
			}
			stack = append(stack, nd)
			edges = append(edges, e)
		case "/clade":
			if len(stack) == 0 {
				return nil, "unbalanced </clade>"
			}
			stack = stack[:len(stack)-1]
			edges = edges[:len(edges)-1]
		case "name", "branch_length", "confidence":
			e := i
			for e < len(s) && s[e] != '<' {
				e++
			}
			text := s[i:e]
			if len(stack) == 0 {
				return nil, "value outside clade"
			}
			switch name {
			case "name":
				stack[len(stack)-1].SetName(text)
			case "branch_length":
				v, err := strconv.ParseFloat(text, 64)
				if err != nil || edges[len(edges)-1] == nil {
					return nil, "bad branch_length"
				}
				edges[len(edges)-1].SetLength(v)
			case "confidence":
				v, err := strconv.ParseFloat(text, 64)
				if err != nil || edges[len(edges)-1] == nil {
					return nil, "bad confidence"
				}
				edges[len(edges)-1].SetSupport(v)
			}
			i = e
		}
	}
	if cur != nil {
		return nil, "unterminated phylogeny"
	}
	return trees, ""
}

// H_C13_phyloxml_writer: the PhyloXML text written for a list of trees is well
// nested and describes exactly those trees (shape, child order, every name -
// root and inner names included -, lengths, supports), as read by an
// independent reader of the element subset gotree writes.
func H_C13_phyloxml_writer() {
	n := sxParam("n", 4)
	k := 1 + sxChoose("ntrees", sxParam("maxtrees", 2))
	src := make([]*tree.Tree, k)
	for i := range src {
		t := c13tree(n, fmt.Sprintf("t%d_", i))
		// names on the root and on inner nodes too
		if sxChoose(fmt.Sprintf("names%d", i), 2) == 1 {
			for j, nd := range t.Nodes() {
				if !nd.Tip() {
					nd.SetName(fmt.Sprintf("in%d", j))
				}
			}
		}
		src[i] = t
	}
	sxReach("ready")
	text, err := phyloxml.WritePhyloXML(treesChan(src))
	sxAssert(err == nil, "WritePhyloXML succeeds")
	got, why := c13readXML(text)
	sxAssert(why == "", "the PhyloXML text is well nested")
	sxAssert(len(got) == k, "one phylogeny per tree, none skipped")
	for i := 0; i < k && i < len(got); i++ {
		c01same(src[i].Root(), nil, got[i].Root(), nil, nil, nil)
	}
	sxReach("checked")
}

// ---------------------------------------------------------------------------
// Nextstrain: decoded documents (the json decoder itself is not encoded).

func c13nsnode(nd, parent *tree.Node, div float64) nextstrain.NsNode {
	c := nextstrain.NsNode{Name: nd.Name()}
	c.Attributes.Divergence = div
	for i, ch := range nd.Neigh() {
		if ch != parent {
			c.Children = append(c.Children, c13nsnode(ch, nd, div+nd.Edges()[i].Length()))
		}
	}
	return c
}

// H_C13_nextstrain: a decoded Nextstrain document converts to the tree it
// describes (shape, names, branch length = difference of divergences) and
// FirstTree gives the tree IterateTrees delivers; delivered trees can be used.
func H_C13_nextstrain() {
	n := sxParam("n", 4)
	t := genTree(n, 2, false)
	decorate(t, lenAll, supNone)
	rootdiv := sxLen("rootdiv")
	sxAssume(rootdiv >= 0)
	ns := &nextstrain.Nextstrain{Version: "v2", Tree: c13nsnode(t.Root(), nil, rootdiv)}
	sxReach("ready")
	var it *tree.Tree
	cnt := 0
	ns.IterateTrees(func(tr *tree.Tree, err error) {
		sxAssert(err == nil, "document converts")
		it = tr
		cnt++
	})
	sxAssert(cnt == 1 && it != nil, "one tree delivered")
	first, err := ns.FirstTree()
	sxAssert(err == nil && first != nil, "FirstTree delivers the tree")
	if it == nil || first == nil {
		return
	}
	sxAssert(c03sameShape(t.Root(), nil, it.Root(), nil), "same shape and names")
	sxAssert(c03sameShape(it.Root(), nil, first.Root(), nil), "FirstTree = first tree of IterateTrees")
	want := distOf(t, n, lenMetric0)
	got := distOf(it, n, lenMetric0)
	got2 := distOf(first, n, lenMetric0)
	for i := 0; i < n; i++ {
		for j := 0; j < n; j++ {
			sxAssert(got[i][j] == want[i][j], "branch lengths = differences of divergences")
			sxAssert(got2[i][j] == want[i][j], "FirstTree has the same lengths")
		}
	}
	c02use(it)
	sxReach("checked")
}
