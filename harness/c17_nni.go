package zzvh

import (
	"github.com/evolbioinfo/gotree/tree"
)

// H_C17_nni: the NNI neighbourhood of a binary tree is complete, minimal and reversible.
func H_C17_nni() {
	n := sxParam("n", 4)
	t := genTree(n, 2, true)
	decorate(t, lenAll, supAny)
	if sxParam("reroot", 0) == 1 {
		// any root position reached the way a user reaches it: by re-rooting
		// (the parent is then no longer the first neighbour of every node)
		sxAssume(!t.Rooted())
		in := innerNodes(t)
		sxAssert(t.Reroot(in[sxChoose("newroot", len(in))]) == nil, "Reroot succeeds")
	}
	if sxParam("innernames", 0) == 1 {
		// inner nodes carry names: none, all of them, or exactly one
		in := innerNodes(t)
		switch c := sxChoose("named", 2+len(in)); {
		case c == 1:
			for i, nd := range in {
				nd.SetName("in" + string(rune('A'+i)))
			}
		case c >= 2:
			in[c-2].SetName("inX")
		}
	}
	before := t.Newick()
	ref0 := newickRef(t)
	splits0 := innerSplitSet(t)
	rooted := t.Rooted()
	// inner branches, the two root branches of a rooted tree counting as one
	ninner := len(splits0)
	var rs []tree.Rearrangement
	// one rearranger object serves several trees (as gotree nni does for a file of trees)
	nnir := &tree.NNIRearranger{}
	if sxParam("reuse", 1) == 1 && sxChoose("reused", 2) == 1 {
		other := t.Clone()
		cnt := 0
		nnir.Rearrange(other, func(r tree.Rearrangement) bool { cnt++; return true })
	}
	nnir.Rearrange(t, func(r tree.Rearrangement) bool { rs = append(rs, r); return true })
	sxReach("enumerated")
	// known finding C17-rooted-root-branch: in a rooted tree whose two root
	// children are both inner nodes, the branch that runs through the degree-2
	// root is skipped by the generator (its ends have 2 and 3 neighbours); all
	// the other inner branches must still get their two rearrangements
	throughRoot := rooted && !t.Root().Neigh()[0].Tip() && !t.Root().Neigh()[1].Tip()
	if sxKnown("C17-rooted-root-branch", throughRoot) {
		sxAssert(len(rs) == 2*(ninner-1) || len(rs) == 2*ninner, "two rearrangements per inner branch other than the one through the root")
	} else {
		sxAssert(len(rs) == 2*ninner, "exactly two rearrangements per inner branch")
	}
	var seen []map[uint64]bool
	for _, r := range rs {
		sxAssert(r.Apply() == nil, "Apply succeeds")
		sxAssert(wellFormed(t) == "", "well-formed after Apply")
		sxAssert(tipSet(t) == uint64(1)<<uint(n)-1, "same tips after Apply")
		s := innerSplitSet(t)
		lost, gained := 0, 0
		for k := range splits0 {
			if !s[k] {
				lost++
			}
		}
		for k := range s {
			if !splits0[k] {
				gained++
			}
		}
		sxAssert(lost == 1 && gained == 1, "neighbour differs from the original by exactly one split")
		for _, o := range seen {
			same := len(o) == len(s)
			for k := range s {
				if !o[k] {
					same = false
				}
			}
			sxAssert(!same, "proposed neighbours are pairwise distinct")
		}
		seen = append(seen, s)
		sxAssert(r.Undo() == nil, "Undo succeeds")
		sxAssert(wellFormed(t) == "", "well-formed after Undo")
		sxAssert(t.Newick() == before, "Undo restores the original text")
		sxAssert(newickRef(t) == ref0, "Undo restores structure, lengths and names")
	}
	sxReach("checked")
}
