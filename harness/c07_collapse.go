package zzvh

import (
	"github.com/evolbioinfo/gotree/tree"
)

// rootAdjacent: branch touches a degree-2 root (rooted trees; the exact-set
// claim of C07 excludes those branches).
func rootAdjacent(t *tree.Tree, e *tree.Edge) bool {
	return t.Rooted() && (e.Left() == t.Root())
}

type c07before struct {
	key     uint64
	tip     bool
	rootAdj bool
	length  float64
	support float64
	depth   int
}

func c07snapshot(t *tree.Tree) []c07before {
	full := fullMask(t, nil)
	var res []c07before
	for _, e := range t.Edges() {
		m := maskBelow(e.Right(), e.Left(), nil)
		a, b := popcount(m), popcount(full&^m)
		d := a
		if b < a {
			d = b
		}
		res = append(res, c07before{key: canonMask(m, full), tip: e.Right().Tip(), rootAdj: rootAdjacent(t, e),
			length: e.Length(), support: e.Support(), depth: d})
	}
	return res
}

// after: canonical split -> branch (no series in the results we look at:
// root-adjacent branches are skipped by the caller).
func c07after(t *tree.Tree) map[uint64]*tree.Edge {
	full := fullMask(t, nil)
	res := map[uint64]*tree.Edge{}
	for _, e := range t.Edges() {
		if rootAdjacent(t, e) {
			continue
		}
		res[canonMask(maskBelow(e.Right(), e.Left(), nil), full)] = e
	}
	return res
}

func c07check(t *tree.Tree, before []c07before, namesBefore string, targeted func(b *c07before) bool) {
	sxAssert(wellFormed(t) == "", "well-formed after collapse")
	after := c07after(t)
	nonroot := 0
	for i := range before {
		b := &before[i]
		if b.rootAdj {
			continue
		}
		nonroot++
		e, kept := after[b.key]
		if b.tip {
			sxAssert(kept, "tip branch never removed")
			sxAssert(e.Length() == b.length, "tip branch length untouched")
			continue
		}
		if targeted(b) {
			sxAssert(!kept, "targeted inner branch removed")
		} else {
			sxAssert(kept, "non-targeted inner branch kept")
			sxAssert(e.Length() == b.length, "kept branch keeps its length")
			sxAssert(e.Support() == b.support, "kept branch keeps its support")
		}
	}
	sxAssert(len(after) <= nonroot, "no split invented")
	sxAssert(tipNamesString(t) == namesBefore, "tip names untouched")
}

// tipNamesString: names of all tips, in label order (child order is free to change).
func tipNamesString(t *tree.Tree) string {
	byLabel := make([]string, 64)
	for _, n := range t.Tips() {
		byLabel[tipLabel(n.Name(), nil)] += n.Name() + ","
	}
	s := ""
	for _, x := range byLabel {
		s += x
	}
	return s
}

// H_C07_collapse_length: CollapseShortBranches(theta,false,false) removes
// exactly the inner branches with length <= theta.
func H_C07_collapse_length() {
	n := sxParam("n", 4)
	t := genTree(n, 2, false)
	decorate(t, lenAll, supAny)
	c07prep(t)
	theta := sxLen("theta")
	before := c07snapshot(t)
	names := tipNamesString(t)
	sxReach("decorated")
	t.CollapseShortBranches(theta, false, false)
	c07check(t, before, names, func(b *c07before) bool { return b.length <= theta })
	sxReach("checked")
}

// H_C07_collapse_support: CollapseLowSupport(theta,false) removes exactly
// the inner branches whose support is present and < theta.
func H_C07_collapse_support() {
	n := sxParam("n", 4)
	t := genTree(n, 2, false)
	decorate(t, lenAll, supAny)
	c07prep(t)
	theta := sxLen("theta")
	before := c07snapshot(t)
	names := tipNamesString(t)
	sxReach("decorated")
	t.CollapseLowSupport(theta, false)
	c07check(t, before, names, func(b *c07before) bool { return b.support != tree.NIL_SUPPORT && b.support < theta })
	sxReach("checked")
}

// H_C07_collapse_depth: CollapseTopoDepth(lo,hi,false,false) removes exactly
// the inner branches with lo <= depth <= hi.
func H_C07_collapse_depth() {
	n := sxParam("n", 4)
	t := genTree(n, 2, false)
	decorate(t, lenAll, supAny)
	if err := t.ReinitIndexes(); err != nil {
		sxAssert(false, "ReinitIndexes failed on a valid tree")
	}
	lo := sxInt("lo", -1, 8)
	hi := sxInt("hi", -1, 8)
	before := c07snapshot(t)
	names := tipNamesString(t)
	sxReach("decorated")
	err := t.CollapseTopoDepth(lo, hi, false, false)
	sxAssert(err == nil, "CollapseTopoDepth succeeds on an indexed tree")
	c07check(t, before, names, func(b *c07before) bool { return lo <= b.depth && b.depth <= hi })
	sxReach("checked")
}

// H_C07_resolve: Resolve yields a binary tree that keeps every split with
// its values and every distance, adding only zero-length branches without
// support.
func H_C07_resolve() {
	n := sxParam("n", 4)
	t := genTree(n, 2, false)
	decorate(t, lenAll, supAny)
	before := splitsOf(t, lenAll)
	dbefore := distOf(t, n, lenMetric)
	rootedBefore := t.Rooted()
	sxReach("decorated")
	t.Resolve()
	sxAssert(wellFormed(t) == "", "well-formed after Resolve")
	sxAssert(t.Rooted() == rootedBefore, "rootedness kept")
	for _, nd := range t.Nodes() {
		if nd.Tip() {
			continue
		}
		want := 3
		if nd == t.Root() && rootedBefore {
			want = 2
		}
		sxAssert(nd.Nneigh() == want, "binary after Resolve")
	}
	after := splitsOf(t, lenAll)
	for k, b := range before {
		a, ok := after[k]
		sxAssert(ok, "original split kept")
		sxAssert(a.length == b.length, "original split keeps its length")
		if b.nbr == 1 && a.nbr == 1 && !b.tip {
			sxAssert(a.support == b.support, "original split keeps its support")
		}
	}
	for k, a := range after {
		if _, ok := before[k]; !ok {
			sxAssert(a.length == 0, "new branch has length 0")
			sxAssert(a.support == tree.NIL_SUPPORT, "new branch has no support")
			sxAssert(a.edge.PValue() == tree.NIL_PVALUE, "new branch has no p-value")
		}
	}
	dafter := distOf(t, n, lenMetric)
	for i := 0; i < n; i++ {
		for j := 0; j < n; j++ {
			sxAssert(dafter[i][j] == dbefore[i][j], "distance unchanged by Resolve")
		}
	}
	sxReach("checked")
}

// c07prep: the tree may have been re-rooted before (branches re-oriented, the
// parent no longer the first neighbour of every node)
func c07prep(t *tree.Tree) {
	if sxChoose("rerootedfirst", 2) == 1 && !t.Rooted() {
		in := innerNodes(t)
		sxAssert(t.Reroot(in[sxChoose("prepnewroot", len(in))]) == nil, "Reroot succeeds")
	}
}
