package zzvh

// Shared harness vocabulary (DESIGN §3): tree spaces built through gotree's
// real constructors from sxChoose decisions, symbolic decoration, and
// reference observers that use only the public read API of gotree.

import (
	"fmt"
	"math"

	"github.com/evolbioinfo/gotree/tree"
)

// ---------------------------------------------------------------------------
// abstract labelled unrooted shapes

type shape struct {
	adj   [][]int // adjacency lists
	label []int   // tip label (0..n-1) or -1 for inner nodes
	ntips int
}

func (s *shape) addNode(label int) int {
	s.adj = append(s.adj, nil)
	s.label = append(s.label, label)
	return len(s.adj) - 1
}

func (s *shape) link(u, v int) {
	s.adj[u] = append(s.adj[u], v)
	s.adj[v] = append(s.adj[v], u)
}

func (s *shape) replaceNeighbor(u, old, nw int) {
	for i, x := range s.adj[u] {
		if x == old {
			s.adj[u][i] = nw
			return
		}
	}
}

func (s *shape) edges() [][2]int {
	var es [][2]int
	for u := range s.adj {
		for _, v := range s.adj[u] {
			if u < v {
				es = append(es, [2]int{u, v})
			}
		}
	}
	return es
}

func (s *shape) inner() []int {
	var in []int
	for u := range s.adj {
		if s.label[u] < 0 {
			in = append(in, u)
		}
	}
	return in
}

// shapeCode >= 0 fixes the shape choices of the next genShape call (mixed radix code).
var shapeCode = -1

// genShape enumerates (one sxChoose per inserted tip) every labelled unrooted
// tree without degree-2 nodes on n >= 3 tips exactly once: 1, 4, 26, 236 for
// n = 3..6. With binaryOnly only edge subdivisions are used: 1, 3, 15, 105.
func genShape(n int, binaryOnly bool) *shape {
	s := &shape{ntips: n}
	c := s.addNode(-1)
	for i := 0; i < 3; i++ {
		t := s.addNode(i)
		s.link(c, t)
	}
	for i := 3; i < n; i++ {
		es := s.edges()
		in := s.inner()
		k := len(es)
		if !binaryOnly {
			k += len(in)
		}
		var ch int
		if shapeCode >= 0 {
			// fixed shape (harnesses that spend their paths on something else)
			ch = shapeCode % k
			shapeCode /= k
		} else {
			ch = sxChoose("ins", k)
		}
		t := s.addNode(i)
		if ch < len(es) {
			u, v := es[ch][0], es[ch][1]
			m := s.addNode(-1)
			s.replaceNeighbor(u, v, m)
			s.replaceNeighbor(v, u, m)
			s.adj[m] = append(s.adj[m], u, v)
			s.link(m, t)
		} else {
			s.link(in[ch-len(es)], t)
		}
	}
	return s
}

// rootShape chooses the root: mode 0 = at an inner node (unrooted tree in
// gotree's sense when that node has degree >= 3), mode 1 = a new degree-2
// root in the middle of a chosen branch (rooted tree).
func rootShape(s *shape, rooted bool) int {
	if !rooted {
		in := s.inner()
		if shapeCode >= 0 {
			return in[0]
		}
		return in[sxChoose("root", len(in))]
	}
	es := s.edges()
	e := es[sxChoose("rootedge", len(es))]
	r := s.addNode(-1)
	s.replaceNeighbor(e[0], e[1], r)
	s.replaceNeighbor(e[1], e[0], r)
	s.adj[r] = append(s.adj[r], e[0], e[1])
	return r
}

func tipName(i int) string {
	if tipNameStyle == 1 && i < len(caseNames) {
		return caseNames[i]
	}
	return fmt.Sprintf("t%d", i)
}

// tipNameStyle 1: taxon names that differ by case only (a/A, b/B, ...)
var tipNameStyle = 0
var caseNames = []string{"a", "A", "b", "B", "c", "C", "d", "D"}

// buildTree constructs the gotree tree for shape s rooted at node root, in
// the order the Newick parser creates nodes and branches (ids included).
func buildTree(s *shape, root int) *tree.Tree {
	t := tree.NewTree()
	nn, ne := 0, 0
	var rec func(u, parent int, pn *tree.Node)
	rec = func(u, parent int, pn *tree.Node) {
		for _, v := range s.adj[u] {
			if v == parent {
				continue
			}
			c := t.NewNode()
			c.SetId(nn)
			nn++
			if s.label[v] >= 0 {
				c.SetName(tipName(s.label[v]))
			}
			e := t.ConnectNodes(pn, c)
			e.SetId(ne)
			ne++
			rec(v, u, c)
		}
	}
	r := t.NewNode()
	r.SetId(nn)
	nn++
	t.SetRoot(r)
	rec(root, -1, r)
	return t
}

// genTree: shape, root position and rootedness from sxChoose decisions.
// rootedMode: 0 unrooted, 1 rooted, 2 both (one more decision).
func genTree(n int, rootedMode int, binaryOnly bool) *tree.Tree {
	s := genShape(n, binaryOnly)
	rooted := rootedMode == 1
	if rootedMode == 2 {
		rooted = sxChoose("rooted", 2) == 1
	}
	return buildTree(s, rootShape(s, rooted))
}

// ---------------------------------------------------------------------------
// decoration

const (
	lenAll  = 0 // every branch has a symbolic length >= 0
	lenNone = 1 // no branch has a length
	lenAny  = 2 // every branch: symbolic, -1 (absent) or >= 0
	lenAny0 = 3 // observer mode only: absent counts 0, no case split (math.Max(0,l))
)

const (
	supNone    = 0 // no inner branch has a support
	supAny     = 1 // every inner branch: symbolic support, absent (-1) or >= 0
	supPresent = 2 // every inner branch has a symbolic support >= 0
)

func decorate(t *tree.Tree, lenMode int, supMode int) {
	for i, e := range t.Edges() {
		switch lenMode {
		case lenAll:
			l := sxLen(fmt.Sprintf("len%d", i))
			sxAssume(l >= 0)
			e.SetLength(l)
		case lenAny:
			l := sxLen(fmt.Sprintf("len%d", i))
			sxAssume(l >= 0 || l == -1)
			e.SetLength(l)
		}
		if supMode != supNone && !e.Right().Tip() {
			sp := sxLen(fmt.Sprintf("sup%d", i))
			if supMode == supPresent {
				sxAssume(sp >= 0)
			} else {
				sxAssume(sp >= 0 || sp == -1)
			}
			e.SetSupport(sp)
		}
	}
}

// ---------------------------------------------------------------------------
// reference observers

// tipLabel maps "t<i>" to i; other names get a label >= 32 via extra.
func tipLabel(name string, extra map[string]int) int {
	if tipNameStyle == 1 {
		for i, c := range caseNames {
			if c == name {
				return i
			}
		}
	}
	if len(name) >= 2 && name[0] == 't' {
		v := 0
		for i := 1; i < len(name); i++ {
			c := name[i]
			if c < '0' || c > '9' {
				v = -1
				break
			}
			v = v*10 + int(c-'0')
		}
		if v >= 0 && v < 32 {
			return v
		}
	}
	if extra != nil {
		if v, ok := extra[name]; ok {
			return v
		}
		v := 32 + len(extra)
		extra[name] = v
		return v
	}
	return 63
}

// wellFormed checks the structural invariant through the public read API.
// It returns "" or a description of the first defect.
func wellFormed(t *tree.Tree) string {
	r := t.Root()
	if r == nil {
		return "nil root"
	}
	if r.Tip() && r.Name() != "" && len(r.Neigh()) == 1 && !r.Neigh()[0].Tip() {
		// a named leaf is a tip of the tree, not its root (its branch would
		// point towards it, not away from the root)
		return "a tip is the root"
	}
	seen := map[*tree.Node]bool{}
	nnodes, nedges := 0, 0
	msg := ""
	var rec func(n, parent *tree.Node)
	rec = func(n, parent *tree.Node) {
		if msg != "" {
			return
		}
		if seen[n] {
			msg = "cycle / node reached twice"
			return
		}
		seen[n] = true
		nnodes++
		ng, es := n.Neigh(), n.Edges()
		if len(ng) != len(es) {
			msg = "neigh and br have different lengths"
			return
		}
		nparent := 0
		for i, nb := range ng {
			e := es[i]
			if nb == nil || e == nil {
				msg = "nil neighbour or branch"
				return
			}
			if nb == n {
				msg = "self loop"
				return
			}
			// symmetric adjacency with the same branch object
			back := -1
			for j, x := range nb.Neigh() {
				if x == n {
					if back >= 0 {
						msg = "neighbour listed twice"
						return
					}
					back = j
				}
			}
			if back < 0 {
				msg = "asymmetric adjacency"
				return
			}
			if back >= len(nb.Edges()) || nb.Edges()[back] != e {
				msg = "the two ends of a branch hold different branch objects"
				return
			}
			if nb == parent {
				nparent++
				if e.Left() != parent || e.Right() != n {
					msg = "parent branch not oriented away from the root"
					return
				}
				continue
			}
			if e.Left() != n || e.Right() != nb {
				msg = "child branch not oriented away from the root"
				return
			}
			nedges++
			rec(nb, n)
		}
		if parent != nil && nparent != 1 {
			msg = "parent not listed exactly once"
		}
	}
	rec(r, nil)
	if msg != "" {
		return msg
	}
	if nedges != nnodes-1 {
		return "branches != nodes-1"
	}
	return ""
}

// enumerationsAgree: Nodes/Tips/Edges/InternalEdges/TipEdges agree.
func enumerationsAgree(t *tree.Tree) string {
	nodes := t.Nodes()
	edges := t.Edges()
	if len(edges) != len(nodes)-1 {
		return "len(Edges) != len(Nodes)-1"
	}
	ntips := 0
	for _, n := range nodes {
		if n.Tip() {
			ntips++
		}
	}
	tips := t.Tips()
	if len(tips) != ntips {
		return "Tips() disagrees with the leaves of Nodes()"
	}
	for _, n := range tips {
		if !n.Tip() {
			return "Tips() returns a non-leaf"
		}
	}
	ie, te := t.InternalEdges(), t.TipEdges()
	if len(ie)+len(te) != len(edges) {
		return "Edges != InternalEdges + TipEdges (count)"
	}
	in := map[*tree.Edge]int{}
	for _, e := range edges {
		in[e] = 0
	}
	for _, e := range ie {
		if e.Right().Tip() {
			return "InternalEdges returns a tip branch"
		}
		if c, ok := in[e]; !ok || c != 0 {
			return "InternalEdges returns a foreign or repeated branch"
		}
		in[e] = 1
	}
	for _, e := range te {
		if !e.Right().Tip() {
			return "TipEdges returns an internal branch"
		}
		if c, ok := in[e]; !ok || c != 0 {
			return "TipEdges returns a foreign or repeated branch"
		}
		in[e] = 1
	}
	return ""
}

// maskBelow: set of tip labels in the subtree of n when coming from parent.
func maskBelow(n, parent *tree.Node, extra map[string]int) uint64 {
	// (a root with a single neighbour is not a tip)
	if n.Tip() && (parent != nil || n.Name() != "") {
		return 1 << uint(tipLabel(n.Name(), extra))
	}
	var m uint64
	for _, c := range n.Neigh() {
		if c != parent {
			m |= maskBelow(c, n, extra)
		}
	}
	return m
}

func fullMask(t *tree.Tree, extra map[string]int) uint64 {
	return maskBelow(t.Root(), nil, extra)
}

func popcount(m uint64) int {
	c := 0
	for ; m != 0; m &= m - 1 {
		c++
	}
	return c
}

// canonMask: the side of the split that does not contain the lowest tip of full.
func canonMask(m, full uint64) uint64 {
	low := full & -full
	if m&low != 0 {
		return full &^ m
	}
	return m
}

type splitInfo struct {
	key     uint64
	length  float64 // sum over the branches in series (absent counted as 0)
	haslen  bool    // some branch of the series has a length
	support float64 // support of the (single) branch; only meaningful if nbr == 1
	nbr     int     // number of branches defining this split (2 for the two root branches of a rooted tree)
	tip     bool
	edge    *tree.Edge // one of them
}

// splitsOf: canonical split -> info. Branches in series (through a degree-2
// node) define the same split and are merged. lenMode tells how lengths are
// to be read without forking on them.
func splitsOf(t *tree.Tree, lenMode int) map[uint64]*splitInfo {
	full := fullMask(t, nil)
	res := map[uint64]*splitInfo{}
	for _, e := range t.Edges() {
		m := maskBelow(e.Right(), e.Left(), nil)
		k := canonMask(m, full)
		si, ok := res[k]
		if !ok {
			si = &splitInfo{key: k, tip: popcount(m) == 1 || popcount(full&^m) == 1, edge: e, support: e.Support()}
			res[k] = si
		}
		si.nbr++
		switch lenMode {
		case lenAll:
			si.length += e.Length()
			si.haslen = true
		case lenNone:
		case lenAny0:
			si.length += math.Max(0, e.Length())
			si.haslen = true
		default:
			if e.Length() != tree.NIL_LENGTH {
				si.length += e.Length()
				si.haslen = true
			}
		}
	}
	return res
}

// distOf: tip x tip path lengths (indexed by tip label), summing metric(e).
func distOf(t *tree.Tree, n int, metric func(e *tree.Edge) float64) [][]float64 {
	d := make([][]float64, n)
	for i := range d {
		d[i] = make([]float64, n)
	}
	for _, tip := range t.Tips() {
		from := tipLabel(tip.Name(), nil)
		if from >= n {
			continue
		}
		var rec func(cur, prev *tree.Node, acc float64)
		rec = func(cur, prev *tree.Node, acc float64) {
			if cur.Tip() && cur != tip {
				to := tipLabel(cur.Name(), nil)
				if to < n {
					d[from][to] = acc
				}
				return
			}
			for i, nb := range cur.Neigh() {
				if nb != prev {
					rec(nb, cur, acc+metric(cur.Edges()[i]))
				}
			}
		}
		rec(tip, nil, 0)
	}
	return d
}

func lenMetric(e *tree.Edge) float64 { return e.Length() }

// shapeString: canonical nested description with child order and names,
// without numbers (structure only).
func shapeString(t *tree.Tree) string {
	var rec func(n, parent *tree.Node) string
	rec = func(n, parent *tree.Node) string {
		if n.Tip() {
			return n.Name()
		}
		s := "("
		first := true
		for _, c := range n.Neigh() {
			if c == parent {
				continue
			}
			if !first {
				s += ","
			}
			first = false
			s += rec(c, n)
		}
		return s + ")" + n.Name()
	}
	return rec(t.Root(), nil)
}

// tipNames: sorted list of tip names through Tips().
func tipSet(t *tree.Tree) uint64 {
	var m uint64
	for _, n := range t.Tips() {
		m |= 1 << uint(tipLabel(n.Name(), nil))
	}
	return m
}

func hasSingleNode(t *tree.Tree) bool {
	for _, n := range t.Nodes() {
		if n != t.Root() && n.Nneigh() == 2 {
			return true
		}
	}
	return false
}

func (s *shape) adjacent(u, v int) bool {
	for _, x := range s.adj[u] {
		if x == v {
			return true
		}
	}
	return false
}
