package zzvh

import (
	"strings"

	"github.com/evolbioinfo/gotree/io/newick"
	"github.com/evolbioinfo/gotree/tree"
)

func parseNewick(s string) (*tree.Tree, error) {
	return newick.NewParser(strings.NewReader(s)).Parse()
}

// lock-step comparison of two trees through the public read API
func c01same(a, pa, b, pb *tree.Node, ea, eb *tree.Edge) {
	sxAssert(a.Name() == b.Name(), "same node name")
	ca, cb := a.Comments(), b.Comments()
	sxAssert(len(ca) == len(cb), "same number of node comments")
	for i := range ca {
		if i < len(cb) {
			sxAssert(ca[i] == cb[i], "same node comment")
		}
	}
	if ea != nil && eb != nil {
		sxAssert(ea.Length() == eb.Length(), "same branch length")
		sxAssert(ea.Support() == eb.Support(), "same support")
		sxAssert(ea.PValue() == eb.PValue(), "same p-value")
		xa, xb := ea.Comments(), eb.Comments()
		sxAssert(len(xa) == len(xb), "same number of branch comments")
		for i := range xa {
			if i < len(xb) {
				sxAssert(xa[i] == xb[i], "same branch comment")
			}
		}
	}
	var ka, kb []int
	for i, c := range a.Neigh() {
		if c != pa {
			ka = append(ka, i)
		}
	}
	for i, c := range b.Neigh() {
		if c != pb {
			kb = append(kb, i)
		}
	}
	sxAssert(len(ka) == len(kb), "same number of children")
	if len(ka) != len(kb) {
		return
	}
	for j := range ka {
		c01same(a.Neigh()[ka[j]], a, b.Neigh()[kb[j]], b, a.Edges()[ka[j]], b.Edges()[kb[j]])
	}
}

func c01nameByte(tag string, interior bool) byte {
	b := sxByte(tag)
	if interior {
		sxAssume(b >= 0x20 && b <= 0x7e)
	} else {
		sxAssume(b >= 0x21 && b <= 0x7e) // no surrounding blank
	}
	sxAssume(b != '(' && b != ')' && b != '[' && b != ']' && b != ',' && b != ':' && b != ';')
	return b
}

func c01commentByte(tag string) byte {
	b := sxByte(tag)
	sxAssume(b >= 0x20 && b <= 0x7e && b != ']')
	return b
}

// H_C01_roundtrip: write, parse, compare, write again.
func H_C01_roundtrip() {
	n := sxParam("n", 4)
	t := genTree(n, 2, false)
	// decoration: every branch may or may not have a length; inner nodes carry
	// a name, a support, a support with p-value, or nothing
	sym := sxParam("symbytes", 0) == 1
	pick := func(tag string, k, fixed int) int {
		// with symbolic name/comment bytes the decoration pattern is fixed (the
		// byte classes already multiply the paths); otherwise every pattern
		if sym {
			return fixed % k
		}
		return sxChoose(tag, k)
	}
	lenmode := pick("lengths", 3, 2) // 0 none, 1 all, 2 all + branch comments
	nodes := t.Nodes()
	inner := 0
	for i, e := range t.Edges() {
		if lenmode >= 1 {
			l := sxLen(sxName2("len", i))
			sxAssume(l != -1)
			e.SetLength(l)
			if lenmode == 2 && i%2 == 0 {
				e.AddComment("bc" + itoa(i))
			}
		}
		if !e.Right().Tip() {
			switch pick(sxName2("label", inner), 5, inner+1) {
			case 4:
				// a legal inner name that looks like the start of support/p-value
				e.Right().SetName("0.5/x" + itoa(inner))
			case 1:
				e.Right().SetName("in" + itoa(inner))
			case 2:
				s := sxLen(sxName2("sup", i))
				sxAssume(s != -1)
				e.SetSupport(s)
			case 3:
				s := sxLen(sxName2("sup", i))
				sxAssume(s != -1)
				e.SetSupport(s)
				p := sxLen(sxName2("pv", i))
				sxAssume(p != -1)
				e.SetPValue(p)
			}
			inner++
		}
	}
	switch pick("comments", 3, 1) {
	case 1:
		for i, nd := range nodes {
			if i%2 == 0 {
				nd.AddComment("c" + itoa(i))
			}
		}
	case 2:
		for i, nd := range nodes {
			nd.AddComment("c" + itoa(i))
			if i%3 == 0 {
				nd.AddComment("&x=" + itoa(i))
			}
		}
	}
	if pick("rootname", 2, 0) == 1 {
		t.Root().SetName("rootnode")
	}
	if pick("nonascii", 2, 0) == 1 {
		// names and comments are not restricted to ASCII: concrete multi-byte characters
		t.Tips()[0].SetName("Caf\u00e9 \u4e2d")
		t.Tips()[1].AddComment("\u00fcber=\u03b1")
		for _, e := range t.Edges() {
			if e.Length() != tree.NIL_LENGTH && len(e.Comments()) == 0 {
				e.AddComment("\u00e7")
				break
			}
		}
	}
	if sym {
		// one tip name, one inner name, one node comment and one branch comment made
		// of arbitrary admissible bytes (all values at once)
		sxOpt("no-numeric-names", true)
		switch sxParam("symkind", 1) {
		case 1:
			tips := t.Tips()
			tp := tips[sxChoose("symtip", len(tips))]
			tp.SetName(string([]byte{c01nameByte("tn0", false), c01nameByte("tn1", true), c01nameByte("tn2", false)}))
		case 2:
			for _, nd := range nodes {
				if !nd.Tip() && nd.Name() != "" && nd != t.Root() {
					nd.SetName(string([]byte{c01nameByte("in0", false), c01nameByte("in1", false)}))
					break
				}
			}
		case 3:
			nd := nodes[sxChoose("symcomment", len(nodes))]
			nd.AddComment(string([]byte{c01commentByte("nc0"), c01commentByte("nc1")}))
		case 4:
			es := t.Edges()
			e := es[sxChoose("symbcomment", len(es))]
			e.ClearComments()
			e.AddComment(string([]byte{c01commentByte("bc0"), c01commentByte("bc1")}))
		}
	}
	sxReach("decorated")
	s := t.Newick()
	t2, err := parseNewick(s)
	sxAssert(err == nil, "the written text parses")
	if err != nil {
		return
	}
	c01same(t.Root(), nil, t2.Root(), nil, nil, nil)
	sxAssert(t2.Newick() == s, "writing the parsed tree again gives identical text")
	sxReach("checked")
}
