package zzvh

import (
	"github.com/evolbioinfo/gotree/support"
	"github.com/evolbioinfo/gotree/tree"
)

// side mask (one side) of every branch of t
func allSides(t *tree.Tree) []uint64 {
	var res []uint64
	for _, e := range t.Edges() {
		res = append(res, maskBelow(e.Right(), e.Left(), nil))
	}
	return res
}

// transfer distance between the split with one side L and the split with one side S on n taxa
func transferDist(L, S uint64, n int) int {
	h := popcount(L ^ S)
	if n-h < h {
		return n - h
	}
	return h
}

func c10boots(n, m, rootedMode int, binary bool) []*tree.Tree {
	bs := make([]*tree.Tree, m)
	for i := range bs {
		bs[i] = genTree(n, rootedMode, binary)
	}
	return bs
}

func treesChan(ts []*tree.Tree) chan tree.Trees {
	ch := make(chan tree.Trees, len(ts))
	for i, t := range ts {
		ch <- tree.Trees{Tree: t, Id: i}
	}
	close(ch)
	return ch
}

// H_C10_fbp: Felsenstein support = fraction of bootstrap trees containing the split.
func H_C10_fbp() {
	n := sxParam("n", 4)
	m := sxParam("m", 2)
	ref := genTree(n, sxParam("refrooted", 2), sxParam("binary", 0) == 1)
	boots := c10boots(n, m, sxParam("bootrooted", 2), sxParam("binary", 0) == 1)
	full := uint64(1)<<uint(n) - 1
	var bsets []map[uint64]bool
	for _, b := range boots {
		bsets = append(bsets, innerSplitSet(b))
	}
	sxReach("ready")
	if !sxSymbolic() {
		sxDebug("ref", ref.Newick())
		for _, b := range boots {
			sxDebug("boot", b.Newick())
		}
	}
	err := support.FBP(ref, treesChan(boots), 1, nil)
	if !sxSymbolic() {
		sxDebug("result", ref.Newick())
	}
	sxAssert(err == nil, "FBP succeeds on trees with the same taxa")
	sxAssert(wellFormed(ref) == "", "reference tree still well-formed")
	for _, e := range ref.Edges() {
		if e.Right().Tip() {
			sxAssert(e.Support() == tree.NIL_SUPPORT, "tip branches receive no support")
			continue
		}
		side := maskBelow(e.Right(), e.Left(), nil)
		if popcount(side) < 2 || n-popcount(side) < 2 {
			// the root branch opposite to a tip child of the root of a rooted
			// reference: structurally inner, but its split is the trivial one of
			// that tip; the property does not say which reading applies: not claimed
			continue
		}
		k := canonMask(side, full)
		c := 0
		for _, s := range bsets {
			if s[k] {
				c++
			}
		}
		sxAssert(e.Support() == float64(c)/float64(m), "FBP = fraction of bootstrap trees containing the split")
		sxAssert(e.Support() >= 0 && e.Support() <= 1, "FBP in [0,1]")
	}
	sxReach("checked")
}

// H_C10_tbe: transfer support = 1 - mean_b min_b' delta(b,b') / (p-1); TBE >= FBP; TBE == 1 iff split in every tree.
func H_C10_tbe() {
	n := sxParam("n", 4)
	m := sxParam("m", 2)
	var ref *tree.Tree
	if k := sxParam("refclade", 0); k > 0 {
		// fixed reference: a star with one clade of k tips, (((t0..t{k-1}),tk,...);
		// the bootstrap trees still range over every tree: reaches light sides
		// of 3 and more at sizes where every reference is out of reach
		rs := &shape{ntips: n}
		center, clade := rs.addNode(-1), rs.addNode(-1)
		rs.link(center, clade)
		for i := 0; i < n; i++ {
			tp := rs.addNode(i)
			if i < k {
				rs.link(clade, tp)
			} else {
				rs.link(center, tp)
			}
		}
		ref = buildTree(rs, center)
	} else {
		ref = genTree(n, sxParam("refrooted", 2), sxParam("binary", 0) == 1)
	}
	boots := c10boots(n, m, sxParam("bootrooted", 2), sxParam("binary", 0) == 1)
	full := uint64(1)<<uint(n) - 1
	var bsides [][]uint64
	var bsets []map[uint64]bool
	for _, b := range boots {
		bsides = append(bsides, allSides(b))
		bsets = append(bsets, innerSplitSet(b))
	}
	sxAssert(ref.ReinitIndexes() == nil, "ReinitIndexes on the reference")
	sxReach("ready")
	_, err := support.TBE(ref, treesChan(boots), 1, false, false, false, 0.3, nil, nil)
	sxAssert(err == nil, "TBE succeeds on trees with the same taxa")
	for _, e := range ref.Edges() {
		if e.Right().Tip() {
			sxAssert(e.Support() == tree.NIL_SUPPORT, "tip branches receive no support")
			continue
		}
		side := maskBelow(e.Right(), e.Left(), nil)
		p := popcount(side)
		if n-p < p {
			p = n - p
		}
		if p < 2 {
			continue
		}
		k := canonMask(side, full)
		sum := 0.0
		c := 0
		for i := range boots {
			best := n
			for _, s := range bsides[i] {
				if d := transferDist(side, s, n); d < best {
					best = d
				}
			}
			sum += float64(best)
			if bsets[i][k] {
				c++
			}
		}
		want := 1.0 - (sum/float64(m))/float64(p-1)
		sxAssert(e.Support() == want, "TBE = 1 - mean min transfer distance / (p-1)")
		sxAssert(e.Support() >= 0 && e.Support() <= 1, "TBE in [0,1]")
		sxAssert(e.Support() >= float64(c)/float64(m), "TBE >= FBP")
		sxAssert((e.Support() == 1) == (c == m), "TBE = 1 iff the split is in every bootstrap tree")
	}
	sxReach("checked")
}

// H_C10_othertaxa: a bootstrap tree on other taxa is rejected with an error.
func H_C10_othertaxa() {
	n := sxParam("n", 4)
	m := sxParam("m", 2)
	ref := genTree(n, 0, false)
	boots := c10boots(n, m, 0, false)
	bad := boots[sxChoose("badtree", m)]
	tips := bad.Tips()
	tips[sxChoose("renamed", len(tips))].SetName("zz_other")
	sxReach("ready")
	if sxChoose("method", 2) == 0 {
		err := support.FBP(ref, treesChan(boots), 1, nil)
		sxAssert(err != nil, "FBP rejects a bootstrap tree on other taxa")
	} else {
		sxAssert(ref.ReinitIndexes() == nil, "ReinitIndexes on the reference")
		_, err := support.TBE(ref, treesChan(boots), 1, false, false, false, 0.3, nil, nil)
		sxAssert(err != nil, "TBE rejects a bootstrap tree on other taxa")
	}
	sxReach("checked")
}
