package zzvh

// sx prelude. The symbolic executor intercepts every sx* function by name and
// never runs these bodies; natively they read a replay table (SX_REPLAY), so
// the same harness file is both the encoding entry point and the replay test.

import (
	"encoding/json"
	"fmt"
	"math"
	"math/big"
	"os"
	"strconv"
	"strings"
)

type sxIn struct {
	Name string `json:"name"`
	Kind string `json:"kind"`
	Val  string `json:"val"`
}

type sxReplayFile struct {
	Harness string         `json:"harness"`
	Inputs  []sxIn         `json:"inputs"`
	Params  map[string]int `json:"params"`
}

type sxSkip struct{}
type sxViolation struct{ Label string }

var (
	sxInputs []sxIn
	sxPos    int
	sxParams map[string]int
	sxTrace  []string
	sxKnownHit []string
)

func sxLoad(path string) (string, error) {
	b, err := os.ReadFile(path)
	if err != nil {
		return "", err
	}
	var rf sxReplayFile
	if err := json.Unmarshal(b, &rf); err != nil {
		return "", err
	}
	sxInputs, sxPos, sxParams, sxTrace, sxKnownHit, sxDbg = rf.Inputs, 0, rf.Params, nil, nil, nil
	return rf.Harness, nil
}

func sxBase(n string) string {
	if i := strings.IndexByte(n, '#'); i >= 0 {
		return n[:i]
	}
	return n
}

func sxNext(name, kind string) (string, bool) {
	for sxPos < len(sxInputs) {
		in := sxInputs[sxPos]
		switch in.Kind {
		case "rand", "randf", "clock", "env", "parsefloat", "taxhash":
			sxPos++ // environment draws are not fed through the prelude
			continue
		}
		break
	}
	if sxPos >= len(sxInputs) {
		return "", false
	}
	in := sxInputs[sxPos]
	sxPos++
	if sxBase(in.Name) != name || in.Kind != kind {
		panic(fmt.Sprintf("sx replay mismatch: harness asks %s(%s), table has %s(%s)", name, kind, in.Name, in.Kind))
	}
	return in.Val, true
}

func sxInt(name string, lo, hi int) int {
	v, ok := sxNext(name, "int")
	if !ok {
		return lo
	}
	n, _ := strconv.ParseInt(v, 10, 64)
	return int(n)
}

func sxLen(name string) float64 {
	v, ok := sxNext(name, "len")
	if !ok {
		return 0
	}
	r, ok := new(big.Rat).SetString(v)
	if !ok {
		panic("bad len value " + v)
	}
	f, _ := r.Float64()
	return f
}

func sxF64(name string) float64 {
	v, ok := sxNext(name, "f64")
	if !ok {
		return 0
	}
	u, _ := strconv.ParseUint(strings.TrimPrefix(v, "0x"), 16, 64)
	return math.Float64frombits(u)
}

func sxU64(name string) uint64 {
	v, ok := sxNext(name, "u64")
	if !ok {
		return 0
	}
	u, _ := strconv.ParseUint(v, 10, 64)
	return u
}

func sxByte(name string) byte {
	v, ok := sxNext(name, "byte")
	if !ok {
		return 0
	}
	u, _ := strconv.ParseUint(v, 10, 8)
	return byte(u)
}

func sxBool(name string) bool {
	v, _ := sxNext(name, "bool")
	return v == "true"
}

func sxChoose(name string, k int) int {
	v, ok := sxNext(name, "choose")
	if !ok {
		return 0
	}
	n, _ := strconv.Atoi(v)
	return n
}

func sxAssume(c bool) {
	if !c {
		panic(sxSkip{})
	}
}

func sxAssert(c bool, label string) {
	if !c {
		panic(sxViolation{label})
	}
}

func sxReach(label string) {}

func sxKnown(id string, inClass bool) bool {
	if inClass {
		sxKnownHit = append(sxKnownHit, id)
	}
	return inClass
}

func sxObserve(tag string, v any) { sxTrace = append(sxTrace, fmt.Sprintf("%s=%v", tag, v)) }

func sxParam(name string, def int) int {
	if v, ok := sxParams[name]; ok {
		return v
	}
	return def
}

// sxDebug: native-only note shown by `gosx replay` (never compared).
func sxDebug(tag string, v any) { sxDbg = append(sxDbg, fmt.Sprintf("%s=%v", tag, v)) }

var sxDbg []string

// sxOutput: text written to the in-memory output sink (symbolic executor only).
func sxOutput() string { return "" }

// sxSeedUsed: the value last given to rand.Seed and whether it is a fixed
// value (symbolic executor only; natively the harness compares draws instead).
func sxSeedUsed() (int64, bool) { return 0, false }

func sxOpt(name string, on bool) {}
func sxOptN(name string, n int)  {}
func sxNote(s string)            {}
func sxSymbolic() bool           { return false }
