package zzvh

import (
	"math"

	"github.com/evolbioinfo/gotree/tree"
)

// H_C06_prune: RemoveTips(revert, S) yields the tree induced on the
// remaining tips, for every shape / root / subset leaving >= 3 tips.
func H_C06_prune() {
	n := sxParam("n", 4)
	lenMode := sxParam("lenmode", lenAll)
	var t *tree.Tree
	if sxParam("singles", 0) > 0 {
		// input trees that already hold a single-child inner node: pruning is
		// not required to clean those up, but must not add new ones
		sh := genShape(n, false)
		es := sh.edges()
		ch := sxChoose("single", len(es))
		u, v := es[ch][0], es[ch][1]
		m := sh.addNode(-1)
		sh.replaceNeighbor(u, v, m)
		sh.replaceNeighbor(v, u, m)
		sh.adj[m] = append(sh.adj[m], u, v)
		t = buildTree(sh, rootShape(sh, sxChoose("rooted", 2) == 1))
	} else {
		t = genTree(n, 2, false)
	}
	singlesBefore := countSingles(t)
	decorate(t, lenMode, supAny)
	indexed := sxChoose("indexed", 2) == 1
	if indexed {
		sxAssert(t.ReinitIndexes() == nil, "ReinitIndexes succeeds on a valid tree")
	}
	if indexed && sxChoose("renamedafterindex", 2) == 1 {
		// two tips exchange their names after the index was built: requests by
		// name must follow the current names, not the stale index
		tp := t.Tips()
		a, b := tp[0].Name(), tp[len(tp)-1].Name()
		tp[0].SetName(b)
		tp[len(tp)-1].SetName(a)
	}
	full := uint64(1)<<uint(n) - 1
	sub := uint64(sxChoose("subset", 1<<uint(n)))
	revert := sxChoose("revert", 2) == 1
	absent := sxChoose("absentname", 2) == 1
	remaining := full &^ sub
	if revert {
		remaining = sub
	}
	sxAssume(popcount(remaining) >= 3)
	var names []string
	if absent {
		names = append(names, "zz_not_in_tree")
	}
	for i := 0; i < n; i++ {
		if sub&(1<<uint(i)) != 0 {
			names = append(names, tipName(i))
		}
	}
	// "path length": an absent length counts 0, which is how gotree itself
	// adds lengths when it merges two branches (math.Max(0,l1)+math.Max(0,l2))
	before := splitsOf(t, lenNone)
	dbefore := distOf(t, n, lenMetric0)
	sxReach("ready")

	err := t.RemoveTips(revert, names...)

	sxAssert(err == nil, "RemoveTips succeeds")
	sxAssert(wellFormed(t) == "", "well-formed after RemoveTips")
	sxAssert(enumerationsAgree(t) == "", "enumerations agree after RemoveTips")
	sxAssert(tipSet(t) == remaining, "tip set is exactly the requested one")
	sxAssert(len(t.Tips()) == popcount(remaining), "no duplicated tip")
	sxAssert(countSingles(t) <= singlesBefore, "no single-child inner node left")
	sxAssert(t.Root().Nneigh() >= 2, "root has at least two children")

	after := splitsOf(t, lenNone)
	// every non-trivial restriction of an original split is present
	want := map[uint64]bool{}
	for k := range before {
		r := canonMask(k&remaining, remaining)
		if popcount(r) >= 2 && popcount(remaining&^r) >= 2 {
			want[r] = true
			_, ok := after[r]
			sxAssert(ok, "restriction of an original split is present")
		}
	}
	for k, a := range after {
		if a.tip {
			continue
		}
		sxAssert(want[k], "no split that is not a restriction of an original one")
	}
	// path lengths between remaining tips
	dafter := distOf(t, n, lenMetric0)
	for i := 0; i < n; i++ {
		for j := 0; j < n; j++ {
			if remaining&(1<<uint(i)) != 0 && remaining&(1<<uint(j)) != 0 {
				if lenMode == lenNone {
					continue
				}
				sxAssert(dafter[i][j] == dbefore[i][j], "path length between remaining tips unchanged")
			}
		}
	}
	if lenMode == lenNone {
		for _, e := range t.Edges() {
			sxAssert(e.Length() == tree.NIL_LENGTH, "no length invented")
		}
	}
	// look-ups by name
	if indexed {
		for i := 0; i < n; i++ {
			here := remaining&(1<<uint(i)) != 0
			ex, err := t.ExistsTip(tipName(i))
			sxAssert(err == nil, "ExistsTip works after pruning an indexed tree")
			sxAssert(ex == here, "ExistsTip reflects the new tip set")
			nd, err := t.TipNode(tipName(i))
			if here {
				sxAssert(err == nil && nd != nil && nd.Tip() && nd.Name() == tipName(i), "TipNode finds a remaining tip")
				if nd != nil {
					sxAssert(nodeInTree(t, nd), "TipNode returns a node of the tree")
				}
			} else {
				sxAssert(err != nil, "TipNode reports a removed tip as absent")
			}
			_, err = t.TipIndex(tipName(i))
			sxAssert((err == nil) == here, "TipIndex reflects the new tip set")
		}
		// the refreshed bitsets describe the actual splits
		sxAssert(indexAgrees(t) == "", "split index describes the pruned tree")
	}
	sxReach("checked")
}

func nodeInTree(t *tree.Tree, nd *tree.Node) bool {
	for _, x := range t.Nodes() {
		if x == nd {
			return true
		}
	}
	return false
}

// indexAgrees: for every branch the recorded bitset / counts / depth equal
// the split computed by DFS; tip indexes are distinct and in range.
func indexAgrees(t *tree.Tree) string {
	tips := t.Tips()
	seen := map[int]bool{}
	for _, tp := range tips {
		id, err := t.TipIndex(tp.Name())
		if err != nil {
			return "TipIndex fails for a tip of the tree"
		}
		if id != tp.TipIndex() {
			return "TipIndex(name) != node.TipIndex()"
		}
		if seen[id] {
			return "two tips share a tip index"
		}
		seen[id] = true
	}
	for _, e := range t.Edges() {
		bs := e.Bitset()
		if bs == nil {
			return "branch without bitset"
		}
		below := map[int]bool{}
		var rec func(n, parent *tree.Node)
		rec = func(n, parent *tree.Node) {
			if n.Tip() {
				below[n.TipIndex()] = true
				return
			}
			for _, c := range n.Neigh() {
				if c != parent {
					rec(c, n)
				}
			}
		}
		rec(e.Right(), e.Left())
		for _, tp := range tips {
			if e.TipPresent(uint(tp.TipIndex())) != below[tp.TipIndex()] {
				return "bitset differs from the tips below the branch"
			}
		}
		if e.NumTipsRight() != len(below) {
			return "NumTipsRight differs from the number of tips below"
		}
		if e.NumTipsLeft() != len(tips)-len(below) {
			return "NumTipsLeft differs from the number of tips above"
		}
		d, err := e.TopoDepth()
		if err != nil {
			return "TopoDepth fails"
		}
		w := len(below)
		if len(tips)-len(below) < w {
			w = len(tips) - len(below)
		}
		if d != w {
			return "TopoDepth differs from the light side"
		}
	}
	return ""
}

// lenMetric0: branch length with "absent" counted as 0.
func lenMetric0(e *tree.Edge) float64 { return math.Max(0, e.Length()) }

func countSingles(t *tree.Tree) int {
	c := 0
	for _, n := range t.Nodes() {
		if n != t.Root() && n.Nneigh() == 2 {
			c++
		}
	}
	return c
}
