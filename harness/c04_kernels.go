package zzvh

import (
	"github.com/evolbioinfo/gotree/tree"
)

// refQuartetCompare: reference definition over the 4-sets and pairings.
func refQuartetCompare(a, b *tree.Quartet) int {
	in := func(x uint, q *tree.Quartet) bool { return x == q.T1 || x == q.T2 || x == q.T3 || x == q.T4 }
	if !(in(a.T1, b) && in(a.T2, b) && in(a.T3, b) && in(a.T4, b)) {
		return tree.QUARTET_DIFF
	}
	// same taxa (both have 4 distinct taxa): same topology iff a's partner of T1 is b's partner of T1
	partner := func(q *tree.Quartet, x uint) uint {
		switch x {
		case q.T1:
			return q.T2
		case q.T2:
			return q.T1
		case q.T3:
			return q.T4
		}
		return q.T3
	}
	if partner(a, a.T1) == partner(b, a.T1) {
		return tree.QUARTET_EQUALS
	}
	return tree.QUARTET_CONFLICT
}

func distinct4(q *tree.Quartet) bool {
	return q.T1 != q.T2 && q.T1 != q.T3 && q.T1 != q.T4 && q.T2 != q.T3 && q.T2 != q.T4 && q.T3 != q.T4
}

// H_C04d_quartet_hash: for ALL uint taxon ids, hash/equality agreement of quartets.
func H_C04d_quartet_hash() {
	// the 5-comparator sorting network inside HashCode is split into paths
	// rather than if-converted: each path then compares two hash terms over
	// the same (PC-equal) inputs, which the solver decides by congruence
	sxOpt("no-ifconv", true)
	q1 := &tree.Quartet{T1: uint(sxU64("a1")), T2: uint(sxU64("a2")), T3: uint(sxU64("a3")), T4: uint(sxU64("a4"))}
	q2 := &tree.Quartet{T1: uint(sxU64("b1")), T2: uint(sxU64("b2")), T3: uint(sxU64("b3")), T4: uint(sxU64("b4"))}
	sxAssume(distinct4(q1))
	sxAssume(distinct4(q2))
	// tree-derived taxon indexes fit in an int
	sxAssume(q1.T1 < 1<<62 && q1.T2 < 1<<62 && q1.T3 < 1<<62 && q1.T4 < 1<<62)
	sxAssume(q2.T1 < 1<<62 && q2.T2 < 1<<62 && q2.T3 < 1<<62 && q2.T4 < 1<<62)
	sxReach("quartets")
	c := q1.Compare(q2)
	sxAssert(c == refQuartetCompare(q1, q2), "Compare agrees with the reference definition")
	sxAssert(c == q2.Compare(q1), "Compare symmetric")
	eq := q1.HashEquals(q2)
	sxAssert(eq == q2.HashEquals(q1), "HashEquals symmetric")
	if eq {
		sxReach("equal-pair")
		sxAssert(q1.HashCode() == q2.HashCode(), "HashEquals quartets hash equally")
	}
}
