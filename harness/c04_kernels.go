package zzvh

import (
	"fmt"

	"github.com/evolbioinfo/gotree/hashmap"
	"github.com/evolbioinfo/gotree/tree"
)

// refQuartetCompare: reference definition over the 4-sets and pairings.
func refQuartetCompare(a, b *tree.Quartet) int {
	in := func(x uint, q *tree.Quartet) bool { return x == q.T1 || x == q.T2 || x == q.T3 || x == q.T4 }
	if !(in(a.T1, b) && in(a.T2, b) && in(a.T3, b) && in(a.T4, b)) {
		return tree.QUARTET_DIFF
	}
	// same taxa (both have 4 distinct taxa): same topology iff a's partner of T1 is b's partner of T1
	partner := func(q *tree.Quartet, x uint) uint {
		switch x {
		case q.T1:
			return q.T2
		case q.T2:
			return q.T1
		case q.T3:
			return q.T4
		}
		return q.T3
	}
	if partner(a, a.T1) == partner(b, a.T1) {
		return tree.QUARTET_EQUALS
	}
	return tree.QUARTET_CONFLICT
}

func distinct4(q *tree.Quartet) bool {
	return q.T1 != q.T2 && q.T1 != q.T3 && q.T1 != q.T4 && q.T2 != q.T3 && q.T2 != q.T4 && q.T3 != q.T4
}

// H_C04d_quartet_hash: for ALL uint taxon ids, hash/equality agreement of quartets.
func H_C04d_quartet_hash() {
	// the 5-comparator sorting network inside HashCode is split into paths
	// rather than if-converted: each path then compares two hash terms over
	// the same (PC-equal) inputs, which the solver decides by congruence
	sxOpt("no-ifconv", true)
	q1 := &tree.Quartet{T1: uint(sxU64("a1")), T2: uint(sxU64("a2")), T3: uint(sxU64("a3")), T4: uint(sxU64("a4"))}
	q2 := &tree.Quartet{T1: uint(sxU64("b1")), T2: uint(sxU64("b2")), T3: uint(sxU64("b3")), T4: uint(sxU64("b4"))}
	sxAssume(distinct4(q1))
	sxAssume(distinct4(q2))
	// tree-derived taxon indexes fit in an int
	sxAssume(q1.T1 < 1<<62 && q1.T2 < 1<<62 && q1.T3 < 1<<62 && q1.T4 < 1<<62)
	sxAssume(q2.T1 < 1<<62 && q2.T2 < 1<<62 && q2.T3 < 1<<62 && q2.T4 < 1<<62)
	sxReach("quartets")
	c := q1.Compare(q2)
	sxAssert(c == refQuartetCompare(q1, q2), "Compare agrees with the reference definition")
	sxAssert(c == q2.Compare(q1), "Compare symmetric")
	eq := q1.HashEquals(q2)
	sxAssert(eq == q2.HashEquals(q1), "HashEquals symmetric")
	if eq {
		sxReach("equal-pair")
		sxAssert(q1.HashCode() == q2.HashCode(), "HashEquals quartets hash equally")
	}
}

// ---------------------------------------------------------------------------
// C04a: after ReinitIndexes, and after each edit that documents refreshed
// indexes, the recorded split of every branch equals the split obtained by
// cutting that branch in the actual tree.
func H_C04a_index() {
	n := sxParam("n", 4)
	t := genTree(n, 2, false)
	decorate(t, lenAll, supAny)
	sxAssert(t.ReinitIndexes() == nil, "ReinitIndexes succeeds")
	sxAssert(indexAgrees(t) == "", "index describes the tree after ReinitIndexes")
	sxAssert(rankAgrees(t) == "", "tip indexes are the ranks of the sorted names")
	sxReach("indexed")
	switch sxChoose("edit", 8) {
	case 0:
		in := innerNodes(t)
		sxAssert(t.Reroot(in[sxChoose("newroot", len(in))]) == nil, "Reroot succeeds")
	case 1:
		t.UnRoot()
	case 2:
		sxAssume(n >= 4)
		sxAssert(t.RemoveTips(false, tipName(sxChoose("tip", n))) == nil, "RemoveTips succeeds")
	case 3:
		t.CollapseShortBranches(sxLen("theta"), false, false)
	case 4:
		t.RotateInternalNodes()
	case 5:
		t.Resolve()
		// Resolve documents that the indexes must be recomputed by the caller
		sxAssert(t.ReinitIndexes() == nil, "ReinitIndexes after Resolve")
	case 6:
		full := uint64(1)<<uint(n) - 1
		sub := uint64(sxChoose("outgroup", 1<<uint(n)))
		sxAssume(sub != 0 && sub != full)
		var names []string
		for i := 0; i < n; i++ {
			if sub&(1<<uint(i)) != 0 {
				names = append(names, tipName(i))
			}
		}
		if t.RerootOutGroup(sxChoose("remove", 2) == 1, false, names...) != nil {
			return
		}
	case 7:
		c := t.Clone()
		sxAssert(indexAgrees(c) == "", "index of a clone describes the clone")
		t = c
	}
	sxAssert(wellFormed(t) == "", "well-formed after the edit")
	sxAssert(indexAgrees(t) == "", "index describes the tree after the edit")
	sxAssert(rankAgrees(t) == "", "tip indexes are ranks after the edit")
	// the refreshed index must compare equal, split by split, with the index of
	// an independently built tree of the same shape (read back from the text)
	if t.Root().Nneigh() >= 2 {
		t2, err := parseNewick(t.Newick())
		sxAssert(err == nil && t2.ReinitIndexes() == nil, "the edited tree reads back and indexes")
		if err == nil {
			es2 := t2.Edges()
			for _, e := range t.Edges() {
				found := false
				for _, e2 := range es2 {
					if e.SameBipartition(e2) && e2.SameBipartition(e) {
						found = true
					}
				}
				sxAssert(found, "every split of the edited tree equals a split of an identical independently built tree")
			}
		}
	}
	sxReach("edited")
}

// rankAgrees: TipIndex(name) is the rank of name among the sorted tip names.
func rankAgrees(t *tree.Tree) string {
	tips := t.Tips()
	for _, a := range tips {
		rank := 0
		for _, b := range tips {
			if b.Name() < a.Name() {
				rank++
			}
		}
		id, err := t.TipIndex(a.Name())
		if err != nil {
			return "TipIndex fails"
		}
		if id != rank {
			return "tip index is not the rank of the name"
		}
	}
	return ""
}

// ---------------------------------------------------------------------------
// C04b: equality and hash of branches across presentations. Name hashes are
// arbitrary (symbolic) 64-bit values, one per distinct name.
func H_C04b_edge_hash() {
	n := sxParam("n", 4)
	sxOpt("stub-tax-hash", true)
	t1 := genTree(n, 2, false)
	var t2 *tree.Tree
	if sxParam("second", 0) == 0 {
		t2 = genTree(n, 2, false) // any other tree on the same taxa
	} else {
		// the same tree under another presentation
		t2 = t1.Clone()
		switch sxChoose("present", 2+sxParam("rot", 0)) {
		case 0:
			in := innerNodes(t2)
			sxAssert(t2.Reroot(in[sxChoose("newroot", len(in))]) == nil, "Reroot succeeds")
		case 1:
			t2.UnRoot()
		case 2:
			t2.RotateInternalNodes() // every draw of every rotation
		}
	}
	sxAssert(t1.ReinitIndexes() == nil, "ReinitIndexes t1")
	sxAssert(t2.ReinitIndexes() == nil, "ReinitIndexes t2")
	full := fullMask(t1, nil)
	es1, es2 := t1.Edges(), t2.Edges()
	e1 := es1[sxChoose("e1", len(es1))]
	k1 := canonMask(maskBelow(e1.Right(), e1.Left(), nil), full)
	sxReach("pair")
	nsame := 0
	for _, e2 := range es2 {
		k2 := canonMask(maskBelow(e2.Right(), e2.Left(), nil), full)
		same := k1 == k2
		sxAssert(e1.HashEquals(e2) == same, "HashEquals iff same split")
		sxAssert(e2.HashEquals(e1) == same, "HashEquals symmetric")
		if same {
			nsame++
			sxAssert(e1.HashCode() == e2.HashCode(), "equal splits hash equally")
			sxAssert(e1.SameBipartition(e2), "SameBipartition true for the same split")
			sxAssert(e2.SameBipartition(e1), "SameBipartition symmetric")
		}
	}
	if nsame > 0 {
		sxReach("same-split")
	}
	// one branch with another split: SameBipartition must be false whatever the hashes
	j := sxChoose("e2", len(es2))
	e2 := es2[j]
	// (pairs involving a perfectly balanced split are skipped here: their hash
	// is a product of two sums, and asking the solver for a 64-bit product
	// collision does not finish within the query timeout)
	bal := func(e *tree.Edge) bool { return e.NumTipsLeft() == e.NumTipsRight() }
	if canonMask(maskBelow(e2.Right(), e2.Left(), nil), full) != k1 && !bal(e1) && !bal(e2) {
		sxAssert(!e1.SameBipartition(e2), "SameBipartition false for different splits")
		sxReach("different-split")
	}
}

// ---------------------------------------------------------------------------
// C04c: the hash map behaves like a plain map for every hash-code
// assignment, initial capacity and the load factors gotree uses.

type c04key struct {
	id int
	h  uint64
}

func (k *c04key) HashCode() uint64 { return k.h }
func (k *c04key) HashEquals(o hashmap.Hasher) bool {
	return k.id == o.(*c04key).id
}

func H_C04c_hashmap() {
	nkeys := sxParam("keys", 3)
	nops := sxParam("ops", 4)
	capacity := 1 + sxChoose("capacity", sxParam("maxcap", 8)) // every value, not only powers of two
	lfs := []float64{0.5, 0.75, 1.0}
	lf := lfs[sxChoose("loadfactor", len(lfs))]
	hm := hashmap.NewHashMap(uint64(capacity), lf)
	keys := make([]*c04key, nkeys)
	for i := range keys {
		keys[i] = &c04key{i, sxU64(fmt.Sprintf("hash%d", i))}
	}
	model := map[int]int{}
	sxReach("built")
	for s := 0; s < nops; s++ {
		k := sxChoose("key", nkeys)
		// a fresh key object with the same identity and hash, as a caller would present it
		probe := &c04key{keys[k].id, keys[k].h}
		if sxChoose("op", 2) == 0 {
			hm.PutValue(probe, 100+s)
			model[k] = 100 + s
		}
		for q := 0; q < nkeys; q++ {
			v, ok := hm.Value(&c04key{keys[q].id, keys[q].h})
			mv, mok := model[q]
			sxAssert(ok == mok, "found exactly the keys that were put")
			if ok && mok {
				sxAssert(v.(int) == mv, "value is the last one put")
			}
		}
		kvs := hm.KeyValues()
		sxAssert(len(kvs) == len(model), "KeyValues has one entry per key")
		sxAssert(len(hm.Keys()) == len(model), "Keys has one entry per key")
		seen := map[int]bool{}
		for _, kv := range kvs {
			id := kv.Key.(*c04key).id
			sxAssert(!seen[id], "no duplicate key in KeyValues")
			seen[id] = true
			_, mok := model[id]
			sxAssert(mok, "KeyValues only has keys that were put")
		}
	}
	sxReach("done")
}

// C04c on the split index itself: AddEdgeCount / Value with real branches of
// two presentations of one tree as keys, every initial capacity up to maxcap.
func H_C04c_edgeindex() {
	n := sxParam("n", 4)
	// real FNV name hashes here (an integration run over shapes, presentations
	// and capacities): with arbitrary name hashes every bucket index is a fork
	// and a product hash in the path condition slows every later query down;
	// "for all hash values" is the job of H_C04b (hash/equals contract) and
	// H_C04c_hashmap (map semantics under that contract)
	t1 := genTree(n, 2, false)
	t2 := t1.Clone()
	switch sxChoose("present", 4) {
	case 0:
		in := innerNodes(t2)
		sxAssert(t2.Reroot(in[sxChoose("newroot", len(in))]) == nil, "Reroot succeeds")
	case 1:
		t2.UnRoot()
	case 2:
		t2.RotateInternalNodes()
	}
	sxAssert(t1.ReinitIndexes() == nil, "ReinitIndexes t1")
	sxAssert(t2.ReinitIndexes() == nil, "ReinitIndexes t2")
	full := fullMask(t1, nil)
	capacity := 1 + sxChoose("capacity", sxParam("maxcap", 4))
	idx := tree.NewEdgeIndex(uint64(capacity), 0.75)
	count := map[uint64]int{}
	// keys: every internal branch of both trees plus the tip branch of t0
	var ins []*tree.Edge
	for _, tr := range []*tree.Tree{t1, t2} {
		ins = append(ins, tr.InternalEdges()...)
		for _, e := range tr.TipEdges() {
			if e.Right().Name() == tipName(0) {
				ins = append(ins, e)
			}
		}
	}
	for _, e := range ins {
		sxAssert(idx.AddEdgeCount(e) == nil, "AddEdgeCount")
		count[canonMask(maskBelow(e.Right(), e.Left(), nil), full)]++
	}
	sxReach("filled")
	for _, e := range t2.Edges() {
		// look up every inserted split through t2's branches, and one absent split (tip t1)
		if e.Right().Tip() && e.Right().Name() != tipName(0) && e.Right().Name() != tipName(1) {
			continue
		}
		v, ok := idx.Value(e)
		k := canonMask(maskBelow(e.Right(), e.Left(), nil), full)
		sxAssert(ok == (count[k] > 0), "found exactly the inserted splits")
		if ok {
			sxAssert(v.Count == count[k], "count = number of branches with this split")
		}
	}
	sxAssert(len(idx.Edges(0, 1000)) == len(count), "one entry per distinct split")
	sxReach("done")
}

// Edges(min,max) = {count in ]min,max]} U {count == max}, counts and bounds symbolic
// (real FNV name hashes here: the bucket layout is not the subject).
func H_C04c_edges_range() {
	n := sxParam("n", 4)
	t := genTree(n, 0, false)
	sxAssert(t.ReinitIndexes() == nil, "ReinitIndexes")
	idx := tree.NewEdgeIndex(uint64(sxParam("cap", 3)), 0.75)
	es := t.Edges()
	counts := make([]int, len(es))
	for i, e := range es {
		counts[i] = sxInt(fmt.Sprintf("count%d", i), 0, 4)
		sxAssert(idx.PutEdgeValue(e, counts[i], 0) == nil, "PutEdgeValue")
	}
	// overwrite one entry
	o := sxChoose("overwrite", len(es))
	counts[o] = sxInt("newcount", 0, 4)
	sxAssert(idx.PutEdgeValue(es[o], counts[o], 0) == nil, "PutEdgeValue overwrite")
	lo := sxInt("min", -1, 5)
	hi := sxInt("max", -1, 5)
	sxReach("filled")
	got := idx.Edges(lo, hi)
	want := 0
	for _, c := range counts {
		if (c > lo && c <= hi) || c == hi {
			want++
		}
	}
	sxAssert(len(got) == want, "Edges(min,max) returns exactly the splits with count in ]min,max] or == max")
	for i, e := range es {
		v, ok := idx.Value(e)
		sxAssert(ok && v.Count == counts[i], "value is the last one put")
	}
	sxReach("done")
}
