package interp

// Strings that contain symbolic bytes. A fully concrete string is a Go
// string; otherwise it is a *symstr whose elements are uint8 or sym{Uint8}.
// Symbolic bytes are ASCII by obligation wherever runes are formed.

import (
	"fmt"
	"go/token"
	"go/types"
	"strings"
	"unicode/utf8"
)

type symstr struct {
	e []value // uint8 | sym{Uint8}
}

func (s *symstr) String() string {
	var sb strings.Builder
	for _, x := range s.e {
		if b, ok := x.(uint8); ok {
			sb.WriteByte(b)
		} else if _, ok := x.(ffElem); ok {
			sb.WriteString("<float>")
		} else {
			sb.WriteString("¿")
		}
	}
	return sb.String()
}

// normStr collapses an element list to a Go string when fully concrete.
func normStr(e []value) value {
	for _, x := range e {
		if _, ok := x.(uint8); !ok {
			cp := make([]value, len(e))
			copy(cp, e)
			return &symstr{cp}
		}
	}
	b := make([]byte, len(e))
	for i, x := range e {
		b[i] = x.(uint8)
	}
	return string(b)
}

func strElems(v value) []value {
	switch v := v.(type) {
	case string:
		e := make([]value, len(v))
		for i := 0; i < len(v); i++ {
			e[i] = v[i]
		}
		return e
	case *symstr:
		return v.e
	}
	panic(pathEnd{StEngineError, fmt.Sprintf("strElems: %T", v)})
}

func isStrVal(v value) bool {
	switch v.(type) {
	case string, *symstr:
		return true
	}
	return false
}

func strLen(v value) int {
	switch v := v.(type) {
	case string:
		return len(v)
	case *symstr:
		return len(v.e)
	}
	panic(pathEnd{StEngineError, fmt.Sprintf("strLen: %T", v)})
}

// strEqTerm returns the term for x == y.
func (ps *pathState) strEqTerm(x, y value) *Term {
	a, b := strElems(x), strElems(y)
	if len(a) != len(b) {
		return ps.ts.False
	}
	cs := make([]*Term, 0, len(a))
	for i := range a {
		ca, oka := a[i].(uint8)
		cb, okb := b[i].(uint8)
		if oka && okb {
			if ca != cb {
				return ps.ts.False
			}
			continue
		}
		fa, isfa := a[i].(ffElem)
		fb, isfb := b[i].(ffElem)
		if isfa || isfb {
			// float text pseudo-bytes: equal texts iff same format and same value
			// (a float text against an ordinary byte counts as different; such a
			// candidate is replayed natively before it is reported)
			if isfa && isfb && fa.f == fb.f && fa.prec == fb.prec && fa.bits == fb.bits && fa.x.sort == fb.x.sort {
				cs = append(cs, ps.ts.Eq(fa.x, fb.x))
				continue
			}
			return ps.ts.False
		}
		cs = append(cs, ps.ts.Eq(ps.termOf(a[i], 0), ps.termOf(b[i], 0)))
	}
	return ps.ts.And(cs...)
}

// strLtTerm returns the term for x < y (bytewise lexicographic).
func (ps *pathState) strLtTerm(x, y value) *Term {
	a, b := strElems(x), strElems(y)
	ts := ps.ts
	n := len(a)
	if len(b) < n {
		n = len(b)
	}
	// build from the end
	var res *Term
	if len(a) < len(b) {
		res = ts.True
	} else {
		res = ts.False
	}
	for i := n - 1; i >= 0; i-- {
		ta, tb := ps.termOf(a[i], 0), ps.termOf(b[i], 0)
		lt := ts.BvCmp(OpBvUlt, ta, tb)
		eq := ts.Eq(ta, tb)
		res = ts.Or(lt, ts.And(eq, res))
	}
	return res
}

func (ps *pathState) strBinop(op token.Token, x, y value) value {
	switch op {
	case token.ADD:
		a, b := strElems(x), strElems(y)
		e := make([]value, 0, len(a)+len(b))
		e = append(e, a...)
		e = append(e, b...)
		return normStr(e)
	case token.EQL:
		return mkval(types.Bool, ps.strEqTerm(x, y))
	case token.NEQ:
		return mkval(types.Bool, ps.ts.Not(ps.strEqTerm(x, y)))
	case token.LSS:
		return mkval(types.Bool, ps.strLtTerm(x, y))
	case token.GTR:
		return mkval(types.Bool, ps.strLtTerm(y, x))
	case token.LEQ:
		return mkval(types.Bool, ps.ts.Not(ps.strLtTerm(y, x)))
	case token.GEQ:
		return mkval(types.Bool, ps.ts.Not(ps.strLtTerm(x, y)))
	}
	panic(pathEnd{StUnsupported, "string binop " + op.String()})
}

// asciiByte checks that a symbolic byte is < 0x80 under the PC.
func (ps *pathState) requireASCII(b sym, where string) {
	if !ps.mustHold(ps.ts.BvCmp(OpBvUlt, b.t, ps.ts.BV(0x80, 8))) {
		panic(pathEnd{StUnsupported, "symbolic byte not provably ASCII in " + where})
	}
}

// strToRunes converts string elements to rune values.
func (ps *pathState) strToRunes(v value) []value {
	e := strElems(v)
	var res []value
	for i := 0; i < len(e); {
		switch b := e[i].(type) {
		case uint8:
			if b < utf8.RuneSelf {
				res = append(res, rune(b))
				i++
				continue
			}
			// decode a concrete multi-byte sequence
			var buf []byte
			for j := i; j < len(e) && j < i+4; j++ {
				c, ok := e[j].(uint8)
				if !ok {
					break
				}
				buf = append(buf, c)
			}
			r, n := utf8.DecodeRune(buf)
			res = append(res, r)
			i += n
		case sym:
			ps.requireASCII(b, "string->[]rune")
			res = append(res, mkval(types.Int32, ps.ts.Zext(b.t, 32)))
			i++
		case ffElem:
			res = append(res, b)
			i++
		}
	}
	return res
}

// runesToStr converts rune values to a string value.
func (ps *pathState) runesToStr(rs []value) value {
	var e []value
	for _, r := range rs {
		switch r := r.(type) {
		case int32:
			var buf [4]byte
			n := utf8.EncodeRune(buf[:], r)
			for _, b := range buf[:n] {
				e = append(e, b)
			}
		case sym:
			ok := ps.ts.BvCmp(OpBvUlt, r.t, ps.ts.BV(0x80, int(r.t.sort.W)))
			if !ps.mustHold(ok) {
				panic(pathEnd{StUnsupported, "symbolic rune not provably ASCII in rune->string"})
			}
			e = append(e, mkval(types.Uint8, ps.ts.Extract(r.t, 7, 0)))
		case ffElem:
			e = append(e, r)
		default:
			panic(pathEnd{StEngineError, fmt.Sprintf("runesToStr: %T", r)})
		}
	}
	return normStr(e)
}

// symStringIter ranges over a string with symbolic bytes (ASCII by obligation).
type symStringIter struct {
	ps *pathState
	e  []value
	i  int
}

func (it *symStringIter) next() tuple {
	okv := make(tuple, 3)
	if it.i >= len(it.e) {
		okv[0] = false
		return okv
	}
	okv[0] = true
	okv[1] = it.i
	switch b := it.e[it.i].(type) {
	case uint8:
		if b < utf8.RuneSelf {
			okv[2] = rune(b)
			it.i++
			return okv
		}
		var buf []byte
		for j := it.i; j < len(it.e) && j < it.i+4; j++ {
			c, ok := it.e[j].(uint8)
			if !ok {
				break
			}
			buf = append(buf, c)
		}
		r, n := utf8.DecodeRune(buf)
		okv[2] = r
		it.i += n
	case sym:
		it.ps.requireASCII(b, "range over string")
		okv[2] = mkval(types.Int32, it.ps.ts.Zext(b.t, 32))
		it.i++
	case ffElem:
		okv[2] = b
		it.i++
	}
	return okv
}

// concStr returns the Go string for a fully concrete string value, or fails
// as unsupported.
func concStr(v value, where string) string {
	switch v := v.(type) {
	case string:
		return v
	case *symstr:
		panic(pathEnd{StUnsupported, "symbolic string passed to " + where})
	}
	panic(pathEnd{StEngineError, fmt.Sprintf("concStr(%s): %T", where, v)})
}

// opaqueStr renders symbolic bytes as a placeholder; used only for messages
// that no encoded code inspects (errors, logs).
func opaqueStr(v value) string {
	switch v := v.(type) {
	case string:
		return v
	case *symstr:
		return v.String()
	}
	return fmt.Sprintf("<%T>", v)
}

// ---- float-text pseudo bytes as integer values ----

// ffClass: the characters a strconv.FormatFloat text is made of.
const ffClassChars = "0123456789.+-eE"

func ffLoHi() (int64, int64) { return '+', 'e' }

// ffBinop: comparisons of a float-text pseudo byte with integers. The pseudo
// byte stands for some character of the float-text class: it is different
// from (and ordered against) every character outside that class; a comparison
// whose outcome depends on which character of the class it is, is unsupported.
func (ps *pathState) ffBinop(op token.Token, x, y value) value {
	fx, isfx := x.(ffElem)
	fy, isfy := y.(ffElem)
	if isfx && isfy {
		same := fx.x == fy.x && fx.f == fy.f && fx.prec == fy.prec && fx.bits == fy.bits
		switch op {
		case token.EQL:
			if same {
				return true
			}
		case token.NEQ:
			if same {
				return false
			}
		}
		panic(pathEnd{StUnsupported, "comparison of two different float-text pseudo bytes"})
	}
	swap := false
	other := y
	if isfy {
		other, swap = x, true
	}
	if _, ok := other.(sym); ok {
		panic(pathEnd{StUnsupported, "comparison of a float-text pseudo byte with a symbolic byte"})
	}
	c := asInt64(widen(other))
	if u, ok := widen(other).(uint64); ok {
		c = int64(u)
	}
	inClass := c >= 0 && c < 128 && strings.ContainsRune(ffClassChars, rune(c))
	lo, hi := ffLoHi()
	// result of (ff OP c)
	var res bool
	o := op
	if swap {
		switch op {
		case token.LSS:
			o = token.GTR
		case token.GTR:
			o = token.LSS
		case token.LEQ:
			o = token.GEQ
		case token.GEQ:
			o = token.LEQ
		}
	}
	switch o {
	case token.EQL:
		if inClass {
			panic(pathEnd{StUnsupported, fmt.Sprintf("float-text pseudo byte compared with %q", rune(c))})
		}
		res = false
	case token.NEQ:
		if inClass {
			panic(pathEnd{StUnsupported, fmt.Sprintf("float-text pseudo byte compared with %q", rune(c))})
		}
		res = true
	case token.LSS, token.LEQ:
		switch {
		case c > hi:
			res = true
		case c < lo:
			res = false
		case c == lo && o == token.LSS:
			res = false
		case c == hi && o == token.LEQ:
			res = true
		default:
			panic(pathEnd{StUnsupported, fmt.Sprintf("float-text pseudo byte ordered against %q", rune(c))})
		}
	case token.GTR, token.GEQ:
		switch {
		case c < lo:
			res = true
		case c > hi:
			res = false
		case c == hi && o == token.GTR:
			res = false
		case c == lo && o == token.GEQ:
			res = true
		default:
			panic(pathEnd{StUnsupported, fmt.Sprintf("float-text pseudo byte ordered against %q", rune(c))})
		}
	default:
		panic(pathEnd{StUnsupported, "arithmetic on a float-text pseudo byte: " + op.String()})
	}
	return res
}
