package interp

// The sx* harness vocabulary, intercepted by name.

import (
	"fmt"
	"go/types"
	"math/big"
)

var sxFuncs map[string]externalFn

func init() {
	sxFuncs = map[string]externalFn{
		"sxInt":     sxInt,
		"sxLen":     sxLen,
		"sxF64":     sxF64,
		"sxU64":     sxU64,
		"sxByte":    sxByte,
		"sxBool":    sxBool,
		"sxChoose":  sxChoose,
		"sxAssume":  sxAssume,
		"sxAssert":  sxAssert,
		"sxReach":   sxReach,
		"sxKnown":   sxKnown,
		"sxObserve": sxObserve,
		"sxParam":   sxParam,
		"sxOpt":     sxOpt,
		"sxNote":    sxNote,
		"sxSeedUsed": func(fr *frame, args []value) value {
			// (seed given to rand.Seed, is it a fixed value?): a seed computed from
			// the clock is not fixed
			ps := fr.i.ps
			if !ps.seeded {
				return tuple{int64(0), false}
			}
			if ps.lastSeedSym {
				return tuple{int64(0), false}
			}
			return tuple{ps.lastSeed, true}
		},
		"sxOutput": func(fr *frame, args []value) value {
			v := normStr(fr.i.ps.out)
			fr.i.ps.out = nil
			return v
		},
		"sxOptN": func(fr *frame, args []value) value {
			ps := fr.i.ps
			switch name := concStr(args[0], "sxOptN name"); name {
			case "preempt-bound":
				ps.sched.preemptBound = int(asInt64(args[1]))
			case "tax-hash-bits":
				ps.taxHashBits = int(asInt64(args[1]))
			default:
				panic(pathEnd{StEngineError, "unknown sxOptN " + name})
			}
			return nil
		},
		"sxDebug":   func(fr *frame, args []value) value { return nil },
		"sxSymbolic": func(fr *frame, args []value) value { return !fr.i.ps.isConcrete },
	}
}

func sxName(v value) string { return concStr(v, "sx input name") }

func sxInt(fr *frame, args []value) value {
	ps := fr.i.ps
	lo, hi := asInt64(args[1]), asInt64(args[2])
	t := ps.newInput(sxName(args[0]), "int", bvSort(64))
	ps.addPC(ps.ts.And(ps.ts.BvCmp(OpBvSle, ps.ts.BV(uint64(lo), 64), t), ps.ts.BvCmp(OpBvSle, t, ps.ts.BV(uint64(hi), 64))))
	return mkval(types.Int, t)
}

// sxLen: a dyadic float m*2^-sxLenBits with integer m, |m| <= 256*2^sxLenBits,
// i.e. a multiple of 2^-sxLenBits in [-256, 256]. With sxLenBits = 40 a value
// has at most 49 significant bits, so sums of a few of them, halves and
// differences are exact in float64 (53 bits) and equal to the real-arithmetic
// result the solver works with.
const sxLenBits = 40
func sxLen(fr *frame, args []value) value {
	ps := fr.i.ps
	name := sxName(args[0])
	if ps.isConcrete {
		t := ps.newInput(name, "len", sortReal)
		return mkval(types.Float64, t)
	}
	m := ps.newInput(name, "len", sortInt)
	ps.addPC(ps.ts.And(ps.ts.RCmp(OpRLe, ps.ts.IntC(-(256<<sxLenBits)), m), ps.ts.RCmp(OpRLe, m, ps.ts.IntC(256<<sxLenBits))))
	x := ps.ts.RMul(ps.ts.RealRat(big.NewRat(1, 1<<sxLenBits)), ps.ts.ToReal(m))
	return mkval(types.Float64, x)
}

func sxF64(fr *frame, args []value) value {
	ps := fr.i.ps
	t := ps.newInput(sxName(args[0]), "f64", sortFP)
	return mkval(types.Float64, t)
}

func sxU64(fr *frame, args []value) value {
	ps := fr.i.ps
	t := ps.newInput(sxName(args[0]), "u64", bvSort(64))
	return mkval(types.Uint64, t)
}

func sxByte(fr *frame, args []value) value {
	ps := fr.i.ps
	t := ps.newInput(sxName(args[0]), "byte", bvSort(8))
	return mkval(types.Uint8, t)
}

func sxBool(fr *frame, args []value) value {
	ps := fr.i.ps
	t := ps.newInput(sxName(args[0]), "bool", sortBool)
	return mkval(types.Bool, t)
}

func sxChoose(fr *frame, args []value) value {
	ps := fr.i.ps
	k := int(asInt64(args[1]))
	name := sxName(args[0])
	if ps.isConcrete {
		t := ps.newInput(name, "choose", bvSort(64))
		return int(int64(t.c))
	}
	v := ps.choose('c', k)
	ps.inputs = append(ps.inputs, &InputRec{Name: ps.uniqueName(name), Kind: "choose", term: ps.ts.BV(uint64(v), 64)})
	return v
}

func (ps *pathState) uniqueName(name string) string {
	if n, ok := ps.inNames[name]; ok {
		ps.inNames[name] = n + 1
		return fmt.Sprintf("%s#%d", name, n+1)
	}
	ps.inNames[name] = 0
	return name
}

func sxAssume(fr *frame, args []value) value {
	ps := fr.i.ps
	switch c := args[0].(type) {
	case bool:
		if !c {
			panic(pathEnd{StAssumeFail, ""})
		}
	case sym:
		if ps.pos < len(ps.prefix) {
			// inside the replayed prefix the assumption is known to be feasible
			ps.addPC(c.t)
			return nil
		}
		r := ps.w.solver.Check(c.t)
		ps.w.solver.Pop()
		if r == "unsat" {
			panic(pathEnd{StAssumeFail, ""})
		}
		if r == "unknown" {
			ps.unkFeas++
		}
		ps.addPC(c.t)
	}
	return nil
}

func sxAssert(fr *frame, args []value) value {
	ps := fr.i.ps
	label := concStr(args[1], "sxAssert label")
	ps.nAsserts++
	switch c := args[0].(type) {
	case bool:
		if !c {
			panic(pathEnd{StViolation, label})
		}
	case sym:
		if !ps.decide(c.t) {
			panic(pathEnd{StViolation, label})
		}
	}
	return nil
}

func sxReach(fr *frame, args []value) value {
	fr.i.ps.reached[concStr(args[0], "sxReach label")] = true
	return nil
}

// sxKnown(id, inClass): marks that the path is inside known-finding class id.
// Returns inClass (deciding it if symbolic).
func sxKnown(fr *frame, args []value) value {
	ps := fr.i.ps
	id := concStr(args[0], "sxKnown id")
	in := ps.decideVal(args[1])
	if in {
		ps.known[id] = true
	}
	return in
}

func sxObserve(fr *frame, args []value) value {
	ps := fr.i.ps
	tag := concStr(args[0], "sxObserve tag")
	v := args[1]
	if it, ok := v.(iface); ok {
		v = it.v
	}
	ps.observe = append(ps.observe, tag+"="+toString(v))
	return nil
}

func sxParam(fr *frame, args []value) value {
	ps := fr.i.ps
	name := concStr(args[0], "sxParam name")
	if v, ok := ps.w.cfg.Params[name]; ok {
		return v
	}
	return int(asInt64(args[1]))
}

// sxOpt switches engine options for the rest of the path.
func sxOpt(fr *frame, args []value) value {
	ps := fr.i.ps
	name := concStr(args[0], "sxOpt name")
	on := args[1].(bool)
	switch name {
	case "nondet-map":
		ps.nondetMap = on
	case "nondet-map-all":
		ps.nondetMap, ps.nondetMapAll = on, on
	case "explore-sched":
		ps.sched.explore = on
	case "prob":
		ps.probMode = on
	case "seeded-rand":
		ps.seededRand = on
	case "rr-sched":
		ps.sched.rr = on
	case "race":
		ps.sched.race = on
	case "fp-ints":
		if on {
			ps.floatMode = 1
		} else {
			ps.floatMode = 0
		}
	case "stub-tax-hash":
		ps.stubTaxHash = on
	case "no-ifconv":
		ps.noIfConv = on
	case "numcpu-sym":
		ps.numCPUSym = on
	case "no-numeric-names":
		ps.numericNamesExcluded = on
	default:
		panic(pathEnd{StEngineError, "unknown sxOpt " + name})
	}
	return nil
}

func sxNote(fr *frame, args []value) value {
	ps := fr.i.ps
	ps.notes = append(ps.notes, concStr(args[0], "sxNote"))
	return nil
}
