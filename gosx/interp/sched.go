package interp

// Cooperative goroutines (baton passing), channels, sync primitives,
// deadlock detection and happens-before race detection.

import (
	"fmt"
	"go/token"
	"runtime/debug"
	"sync"
)

type vclock []int

func (a vclock) join(b vclock) vclock {
	if len(b) > len(a) {
		n := make(vclock, len(b))
		copy(n, a)
		a = n
	}
	for i, x := range b {
		if x > a[i] {
			a[i] = x
		}
	}
	return a
}

func (a vclock) clone() vclock { return append(vclock(nil), a...) }

func (a vclock) get(i int) int {
	if i < len(a) {
		return a[i]
	}
	return 0
}

type goroutine struct {
	id      int
	wake    chan struct{}
	done    bool
	started bool
	blocked func() bool
	desc    string
	vc      vclock
	pos     token.Pos
}

type scheduler struct {
	ps       *pathState
	gs       []*goroutine
	cur      *goroutine
	explore  bool
	rr       bool
	preemptBound int // explore mode: max number of non-forced switches (-1 = unbounded)
	npreempt int
	race     bool
	finished chan struct{}
	result   pathEnd
	once     sync.Once
	wg       sync.WaitGroup
	dead     bool
	shadow   map[*value]*shadowCell
	nswitch  int
}

type shadowCell struct {
	wG, wC int // last write: goroutine, clock
	wPos   token.Pos
	reads  map[int]int // goroutine -> clock
	rPos   map[int]token.Pos
}

func newScheduler(ps *pathState) *scheduler {
	return &scheduler{ps: ps, finished: make(chan struct{}), shadow: map[*value]*shadowCell{}, preemptBound: -1}
}

func (s *scheduler) finish(pe pathEnd) {
	s.once.Do(func() {
		s.result = pe
		s.dead = true
		close(s.finished)
	})
}

func (s *scheduler) tick(g *goroutine) {
	for len(g.vc) <= g.id {
		g.vc = append(g.vc, 0)
	}
	g.vc[g.id]++
}

// spawn creates a goroutine that will run f when first scheduled.
func (s *scheduler) spawn(parent *goroutine, f func()) *goroutine {
	g := &goroutine{id: len(s.gs), wake: make(chan struct{}, 1)}
	if parent != nil {
		s.tick(parent)
		g.vc = parent.vc.clone()
	}
	s.tick(g)
	s.gs = append(s.gs, g)
	s.wg.Add(1)
	go s.run(g, f)
	return g
}

func (s *scheduler) run(g *goroutine, f func()) {
	defer s.wg.Done()
	defer func() {
		r := recover()
		switch r := r.(type) {
		case nil:
		case killG:
		case pathEnd:
			s.finish(r)
		case targetPanic:
			s.finish(pathEnd{StPanic, "panic: " + toString(r.v) + s.ps.where()})
		case exitPanic:
			s.finish(pathEnd{StExit, fmt.Sprintf("os.Exit(%d)%s", int(r), s.ps.where())})
		case unsupportedErr:
			s.finish(pathEnd{StUnsupported, r.msg + s.ps.where()})
		default:
			s.finish(pathEnd{StEngineError, fmt.Sprintf("%v%s\n%s", r, s.ps.where(), debug.Stack())})
		}
	}()
	<-g.wake
	if s.dead {
		panic(killG{})
	}
	g.started = true
	s.cur = g
	f()
	g.done = true
	if g.id == 0 {
		// main returned; blocked goroutines are abandoned as in a real process
		s.finish(pathEnd{StOK, ""})
		return
	}
	// hand the baton to someone else
	n := s.pick(g, false)
	if n == nil {
		s.finish(pathEnd{StDeadlock, "all goroutines are blocked: " + s.describeBlocked()})
		return
	}
	s.cur = n
	n.wake <- struct{}{}
}

func (s *scheduler) runnable(g *goroutine) bool {
	if g.done {
		return false
	}
	return g.blocked == nil || g.blocked()
}

func (s *scheduler) describeBlocked() string {
	out := ""
	for _, g := range s.gs {
		if !g.done {
			out += fmt.Sprintf("[g%d %s%s] ", g.id, g.desc, s.ps.w.posStr(g.pos))
		}
	}
	return out
}

// pick selects the next goroutine to run. If canStay, the current goroutine
// is a candidate.
func (s *scheduler) pick(cur *goroutine, canStay bool) *goroutine {
	var cand []*goroutine
	n := len(s.gs)
	// round-robin order starting after cur
	for k := 1; k <= n; k++ {
		g := s.gs[(cur.id+k)%n]
		if g == cur && !canStay {
			continue
		}
		if s.runnable(g) {
			cand = append(cand, g)
		}
	}
	if len(cand) == 0 {
		return nil
	}
	curRunnable := canStay && s.runnable(cur)
	if s.explore && len(cand) > 1 {
		// preemption bounding: once the budget of non-forced switches is used
		// up, a goroutine that can continue does continue
		if curRunnable && s.preemptBound >= 0 && s.npreempt >= s.preemptBound {
			return cur
		}
		g := cand[s.ps.choose('s', len(cand))]
		if curRunnable && g != cur {
			s.npreempt++
		}
		return g
	}
	if s.rr {
		// fair deterministic schedule: at every scheduling point hand over to
		// the next runnable goroutine in round-robin order
		for _, g := range cand {
			if g != cur {
				return g
			}
		}
		return cand[0]
	}
	if curRunnable && !s.explore {
		return cur
	}
	return cand[0]
}

// yield is called by the current goroutine at a scheduling point. mustSwitch
// is true when it cannot continue right now.
func (s *scheduler) yield(g *goroutine, mustSwitch bool) {
	if s.dead {
		panic(killG{})
	}
	n := s.pick(g, !mustSwitch)
	if n == nil {
		panic(pathEnd{StDeadlock, "all goroutines are blocked: " + s.describeBlocked()})
	}
	if n == g {
		return
	}
	s.nswitch++
	s.cur = n
	n.wake <- struct{}{}
	<-g.wake
	if s.dead {
		panic(killG{})
	}
	s.cur = g
}

// block parks g until pred holds.
func (s *scheduler) block(g *goroutine, pred func() bool, desc string) {
	for !pred() {
		g.blocked = pred
		g.desc = desc
		g.pos = s.ps.curPos
		s.yield(g, true)
	}
	g.blocked = nil
	g.desc = ""
}

// preempt is a scheduling point at which g could continue (explore mode only).
func (s *scheduler) preempt(g *goroutine) {
	if (s.explore || s.rr) && len(s.gs) > 1 {
		g.pos = s.ps.curPos
		s.yield(g, false)
	}
}

func (s *scheduler) killAll() {
	s.dead = true
	for _, g := range s.gs {
		select {
		case g.wake <- struct{}{}:
		default:
		}
	}
	s.wg.Wait()
}

// ---- channels ----

type chanMsg struct {
	v     value
	vc    vclock
	taken bool
	rvc   vclock // receiver's clock for rendezvous edge
}

type channel struct {
	cap    int
	buf    []*chanMsg
	sendq  []*chanMsg
	closed bool
	cvc    vclock // clock at close
	recvWaiting int
}

func (s *scheduler) send(ch *channel, v value) {
	g := s.cur
	if ch == nil {
		s.block(g, func() bool { return false }, "send on nil channel")
	}
	s.preempt(g)
	if ch.closed {
		panic(targetPanic{runtimeErr{"send on closed channel"}})
	}
	s.tick(g)
	m := &chanMsg{v: v, vc: g.vc.clone()}
	if ch.cap > 0 {
		s.block(g, func() bool { return len(ch.buf) < ch.cap || ch.closed }, "chan send (buffer full)")
		if ch.closed {
			panic(targetPanic{runtimeErr{"send on closed channel"}})
		}
		ch.buf = append(ch.buf, m)
		return
	}
	ch.sendq = append(ch.sendq, m)
	s.block(g, func() bool { return m.taken || ch.closed }, "chan send (no receiver)")
	if !m.taken {
		panic(targetPanic{runtimeErr{"send on closed channel"}})
	}
	g.vc = g.vc.join(m.rvc)
}

func (s *scheduler) recvReady(ch *channel) bool {
	return len(ch.buf) > 0 || len(ch.sendq) > 0 || ch.closed
}

func (s *scheduler) recv(ch *channel) (value, bool) {
	g := s.cur
	if ch == nil {
		s.block(g, func() bool { return false }, "receive from nil channel")
	}
	s.preempt(g)
	ch.recvWaiting++
	s.block(g, func() bool { return s.recvReady(ch) }, "chan receive")
	ch.recvWaiting--
	return s.recvNow(g, ch)
}

func (s *scheduler) recvNow(g *goroutine, ch *channel) (value, bool) {
	s.tick(g)
	if len(ch.buf) > 0 {
		m := ch.buf[0]
		ch.buf = ch.buf[1:]
		g.vc = g.vc.join(m.vc)
		return m.v, true
	}
	if len(ch.sendq) > 0 {
		m := ch.sendq[0]
		ch.sendq = ch.sendq[1:]
		m.taken = true
		g.vc = g.vc.join(m.vc)
		m.rvc = g.vc.clone()
		return m.v, true
	}
	// closed
	g.vc = g.vc.join(ch.cvc)
	return nil, false
}

func (s *scheduler) closeChan(ch *channel) {
	g := s.cur
	if ch == nil {
		panic(targetPanic{runtimeErr{"close of nil channel"}})
	}
	if ch.closed {
		panic(targetPanic{runtimeErr{"close of closed channel"}})
	}
	s.preempt(g)
	s.tick(g)
	ch.closed = true
	ch.cvc = g.vc.clone()
}

// ---- race detection ----

func (s *scheduler) access(addr *value, write bool) {
	if !s.race || len(s.gs) < 2 || addr == nil {
		return
	}
	g := s.cur
	c := s.shadow[addr]
	if c == nil {
		c = &shadowCell{wG: -1}
		s.shadow[addr] = c
	}
	pos := s.ps.curPos
	if c.wG >= 0 && c.wG != g.id && c.wC > g.vc.get(c.wG) {
		kind := "read"
		if write {
			kind = "write"
		}
		panic(pathEnd{StRace, fmt.Sprintf("data race: %s by g%d%s after unordered write by g%d%s", kind, g.id, s.ps.w.posStr(pos), c.wG, s.ps.w.posStr(c.wPos))})
	}
	if write {
		for rg, rc := range c.reads {
			if rg != g.id && rc > g.vc.get(rg) {
				panic(pathEnd{StRace, fmt.Sprintf("data race: write by g%d%s after unordered read by g%d%s", g.id, s.ps.w.posStr(pos), rg, s.ps.w.posStr(c.rPos[rg]))})
			}
		}
		c.wG, c.wC, c.wPos = g.id, g.vc.get(g.id), pos
		c.reads = nil
		c.rPos = nil
	} else {
		if c.reads == nil {
			c.reads = map[int]int{}
			c.rPos = map[int]token.Pos{}
		}
		c.reads[g.id] = g.vc.get(g.id)
		c.rPos[g.id] = pos
	}
}

// ---- sync primitives (side tables keyed by receiver address) ----

type wgState struct {
	n  int
	vc vclock
}

type muState struct {
	locked  bool
	readers int
	vc      vclock
	rvc vclock // released by readers: acquired by the next writer only (readers do not synchronise with each other)
}

func (ps *pathState) wgOf(p *value) *wgState {
	if st, ok := ps.side[p]; ok {
		return st.(*wgState)
	}
	st := &wgState{}
	ps.side[p] = st
	return st
}

func (ps *pathState) muOf(p *value) *muState {
	if st, ok := ps.side[p]; ok {
		return st.(*muState)
	}
	st := &muState{}
	ps.side[p] = st
	return st
}
