package interp

// Exploration: a shared work list of decision prefixes, N workers, each with
// its own interpreter state and solver process.

import (
	"fmt"
	"go/token"
	"go/types"
	"math"
	"math/big"
	"os"
	"sort"
	"strings"
	"sync"
	"time"

	"golang.org/x/tools/go/ssa"
)

type Config struct {
	Prog        *ssa.Program
	HarnessPkgs []*ssa.Package
	InitPkgs    []*ssa.Package // packages whose init is interpreted, in dependency order
	Workers     int
	SolverArgv  []string
	TimeoutMs   int
	MaxPaths    int
	MaxSteps    int64
	MaxDepth    int
	Budget      time.Duration
	Params      map[string]int
	Trace       bool
	SampleEvery int // ask for a model of every k-th OK path (native cross-validation)
	SolverLog   string
	StopOnFirst bool // stop exploring after the first candidate counterexample
	KeepObs     bool // keep the observations of every completed path (2-safety comparisons across paths)
	RunCmdInits bool // interpret the init#k functions of package cmd (cobra/pflag registration)
	FreshInits  bool // re-initialise all package-level state before every path
	RepoPrefix  string // import path prefix of the module under test: its package state is re-initialised before every path
}

type PathResult struct {
	Status   PathStatus
	Msg      string
	Trace    []Decision
	Inputs   []*InputRec
	Model    map[string]ModelVal
	ModelRes string
	Observe  []string
	Reached  []string
	Known    []string
	Steps    int64
	PCSize   int
	Notes    []string
	NAsserts int
	RandN    int
	Seeded   bool // draws modelled as functions of the generator state (seeded-rand)
	Weight   string // probability mode: exact probability of the path (rational)
	Output   string
}

type ExploreResult struct {
	Paths        int
	ByStatus     map[string]int
	Decisions    int
	Weighted     []*PathResult // probability mode: every completed path
	Candidates   []*PathResult // violations etc. with models
	Samples      []*PathResult // OK paths with models (for native validation)
	Inconclusive []*PathResult
	Reached      map[string]int
	Known        map[string]int
	Funcs        map[string]bool
	Stubs        map[string]bool
	Solver       SolverStats
	UnknownFeas  int
	Truncated    string // non-empty if exploration stopped early (reduced bound)
	Wall         time.Duration
	MaxSteps     int64
	InitFailures map[string]string
	Asserts      int
}

type Worker struct {
	id     int
	cfg    *Config
	interp *interpreter
	solver *Solver
	fset   *token.FileSet
	lastPS *pathState
}

func (w *Worker) posStr(p token.Pos) string {
	if p == token.NoPos || w.fset == nil {
		return ""
	}
	pos := w.fset.Position(p)
	f := pos.Filename
	if i := strings.Index(f, "/repo/"); i >= 0 {
		f = f[i+6:]
	} else if d := os.Getenv("GOSX_REPO"); d != "" && strings.HasPrefix(f, d+"/") {
		f = f[len(d)+1:]
	}
	return fmt.Sprintf(" at %s:%d", f, pos.Line)
}

func newWorker(id int, cfg *Config) (*Worker, error) {
	w := &Worker{id: id, cfg: cfg, fset: cfg.Prog.Fset}
	i := &interpreter{
		prog:        cfg.Prog,
		globals:     make(map[*ssa.Global]*value),
		sizes:       &types.StdSizes{WordSize: 8, MaxAlign: 8},
		w:           w,
		harnessPkgs: map[*ssa.Package]bool{},
		initDone:    map[*ssa.Package]string{},
	}
	if cfg.Trace {
		i.mode |= EnableTracing
	}
	for _, p := range cfg.HarnessPkgs {
		i.harnessPkgs[p] = true
	}
	if rt := cfg.Prog.ImportedPackage("runtime"); rt != nil {
		i.runtimeErrorString = rt.Type("errorString").Object().Type()
	}
	for _, pkg := range cfg.Prog.AllPackages() {
		for _, m := range pkg.Members {
			if g, ok := m.(*ssa.Global); ok {
				cell := zero(mustDeref(g.Type()))
				i.globals[g] = &cell
			}
		}
	}
	w.interp = i
	w.runInits()
	return w, nil
}

// freshState puts every package-level variable back to its zero value and
// interprets the init functions again: paths that write to package-level
// state (option variables, pflag's flag objects) then start from the state a
// new process starts from, not from what the previous path of this worker left.
func (w *Worker) freshState() {
	i := w.interp
	for g, cell := range i.globals {
		*cell = zero(mustDeref(g.Type()))
	}
	w.runInits()
}

// freshRepoState does the same for the packages of the module under test (and
// the harness package) only: their package-level variables are zeroed and their
// initialisers interpreted again before every path, so that no path sees what
// an earlier path of the same worker left in them. The other packages (standard
// library, dependencies) keep the state their initialisers produced.
func (w *Worker) freshRepoState() {
	i := w.interp
	pre := w.cfg.RepoPrefix
	if pre == "" {
		return
	}
	any := false
	for g, cell := range i.globals {
		if g.Pkg != nil && strings.HasPrefix(g.Pkg.Pkg.Path(), pre) {
			*cell = zero(mustDeref(g.Type()))
			any = true
		}
	}
	if any {
		w.runInitsOf(func(p *ssa.Package) bool { return strings.HasPrefix(p.Pkg.Path(), pre) })
	}
}

// runInits interprets the init functions of the configured packages, once
// per worker, in concrete mode and tolerantly.
func (w *Worker) runInits() { w.runInitsOf(nil) }

func (w *Worker) runInitsOf(only func(*ssa.Package) bool) {
	i := w.interp
	t0 := time.Now()
	defer func() {
		if os.Getenv("GOSX_INIT_TIME") != "" {
			fmt.Fprintf(os.Stderr, "worker %d: inits took %v\n", w.id, time.Since(t0))
		}
	}()
	for _, pkg := range w.cfg.InitPkgs {
		if only != nil && !only(pkg) {
			continue
		}
		fn := pkg.Func("init")
		if fn == nil {
			continue
		}
		ps := w.newPath(nil)
		ps.isConcrete = true
		ps.initMode = true
		ps.funcs = nil
		ps.stubs = nil
		res := w.execute(ps, func() {
			callSSA(i, nil, token.NoPos, fn, nil, nil)
		})
		if res.st != StOK {
			i.initDone[pkg] = fmt.Sprintf("%s: %s", res.st, firstLine(res.msg))
		} else {
			i.initDone[pkg] = ""
		}
	}
}

func firstLine(s string) string {
	if i := strings.IndexByte(s, '\n'); i >= 0 {
		return s[:i]
	}
	return s
}

func (w *Worker) newPath(prefix []Decision) *pathState {
	ps := &pathState{
		w:        w,
		ts:       NewTermStore(),
		prefix:   prefix,
		inNames:  map[string]int{},
		reached:  map[string]bool{},
		known:    map[string]bool{},
		stubs:    map[string]bool{},
		funcs:    map[string]bool{},
		side:     map[interface{}]interface{}{},
		memo:     map[string]value{},
		decided:  map[int]bool{},
		maxSteps: w.cfg.MaxSteps,
		maxDepth: w.cfg.MaxDepth,
	}
	if ps.maxSteps == 0 {
		ps.maxSteps = defaultMaxSteps
	}
	if ps.maxDepth == 0 {
		ps.maxDepth = defaultMaxDepth
	}
	ps.sched = newScheduler(ps)
	return ps
}

// execute runs f as goroutine 0 of a fresh scheduler and waits for the path to end.
func (w *Worker) execute(ps *pathState, f func()) pathEnd {
	w.interp.ps = ps
	s := ps.sched
	g0 := s.spawn(nil, f)
	g0.wake <- struct{}{}
	<-s.finished
	s.killAll()
	return s.result
}

// RunPath executes the harness under the given decision prefix.
func (w *Worker) RunPath(h *ssa.Function, prefix []Decision, concrete map[string]ModelVal) (*PathResult, [][]Decision) {
	if w.cfg.FreshInits {
		w.freshState()
	} else {
		w.freshRepoState()
	}
	ps := w.newPath(prefix)
	if concrete != nil {
		ps.isConcrete = true
		ps.concrete = concrete
	} else {
		w.solver.ts = ps.ts
		w.solver.Reset()
	}
	i := w.interp
	end := w.execute(ps, func() {
		callSSA(i, nil, token.NoPos, h, nil, nil)
	})
	res := &PathResult{
		Status: end.st, Msg: end.msg, Trace: ps.trace, Inputs: ps.inputs, Observe: ps.observe,
		Reached: sortedKeys(ps.reached), Known: sortedKeys(ps.known), Steps: ps.steps, PCSize: len(ps.pc),
		Notes: ps.notes, NAsserts: ps.nAsserts, RandN: ps.nrand, Seeded: ps.seededRand,
	}
	if ps.probMode && end.st == StOK && !ps.isConcrete {
		wgt, why := ps.pathWeight()
		if wgt == nil {
			res.Status, res.Msg = StUnsupported, "probability mode: "+why
		} else {
			res.Weight = wgt.RatString()
		}
	}
	if ps.pos < len(ps.prefix) && end.st != StAssumeFail {
		// the path ended before consuming its prefix: replay divergence
		if end.st == StOK {
			res.Status = StEngineError
			res.Msg = fmt.Sprintf("path ended after %d of %d prefix decisions", ps.pos, len(ps.prefix))
		}
	}
	w.lastPS = ps
	return res, ps.forks
}

// Explore runs the harness function over all paths.
func Explore(cfg *Config, h *ssa.Function) (*ExploreResult, error) {
	t0 := time.Now()
	nw := cfg.Workers
	if nw <= 0 {
		nw = 1
	}
	res := &ExploreResult{ByStatus: map[string]int{}, Reached: map[string]int{}, Known: map[string]int{},
		Funcs: map[string]bool{}, Stubs: map[string]bool{}, InitFailures: map[string]string{}}
	var mu sync.Mutex
	cond := sync.NewCond(&mu)
	work := [][]Decision{nil}
	active := 0
	stop := false
	deadline := time.Time{}
	if cfg.Budget > 0 {
		deadline = t0.Add(cfg.Budget)
	}
	var wg sync.WaitGroup
	errs := make(chan error, nw)
	for k := 0; k < nw; k++ {
		wg.Add(1)
		go func(k int) {
			defer wg.Done()
			w, err := newWorker(k, cfg)
			if err != nil {
				errs <- err
				return
			}
			ts := NewTermStore()
			sv, err := NewSolver(ts, cfg.SolverArgv, cfg.TimeoutMs)
			if err != nil {
				errs <- err
				mu.Lock()
				stop = true
				cond.Broadcast()
				mu.Unlock()
				return
			}
			if cfg.SolverLog != "" && k == 0 {
				if f, err := os.Create(cfg.SolverLog); err == nil {
					sv.Log = f
					defer f.Close()
				}
			}
			w.solver = sv
			defer sv.Close()
			if k == 0 {
				mu.Lock()
				for p, why := range w.interp.initDone {
					if why != "" {
						res.InitFailures[p.Pkg.Path()] = why
					}
				}
				mu.Unlock()
			}
			for {
				mu.Lock()
				for len(work) == 0 && active > 0 && !stop {
					cond.Wait()
				}
				if stop || (len(work) == 0 && active == 0) {
					mu.Unlock()
					break
				}
				prefix := work[len(work)-1]
				work = work[:len(work)-1]
				active++
				mu.Unlock()

				pr, forks := w.RunPath(h, prefix, nil)
				// candidates and sampled OK paths need a model
				wantModel := false
				switch pr.Status {
				case StViolation, StPanic, StExit, StHang, StDeadlock, StRace:
					wantModel = true
				}
				mu.Lock()
				np := res.Paths
				mu.Unlock()
				if pr.Status == StOK && cfg.SampleEvery > 0 && (np < 8 || np%cfg.SampleEvery == 0) {
					wantModel = true
				}
				if wantModel {
					pr.Model, pr.ModelRes = w.lastPS.model()
					fillVals(pr)
				} else if pr.Weight != "" || cfg.KeepObs {
					fillVals(pr) // the choices (constants) are needed to re-run the configuration natively
				}

				mu.Lock()
				active--
				res.Paths++
				res.ByStatus[pr.Status.String()]++
				res.Decisions += len(pr.Trace)
				res.UnknownFeas += w.lastPS.unkFeas
				res.Asserts += pr.NAsserts
				if pr.Steps > res.MaxSteps {
					res.MaxSteps = pr.Steps
				}
				for _, l := range pr.Reached {
					res.Reached[l]++
				}
				for _, l := range pr.Known {
					res.Known[l]++
				}
				for f := range w.lastPS.funcs {
					res.Funcs[f] = true
				}
				for f := range w.lastPS.stubs {
					res.Stubs[f] = true
				}
				switch pr.Status {
				case StOK:
					if pr.Weight != "" {
						res.Weighted = append(res.Weighted, pr)
					} else if cfg.KeepObs {
						res.Weighted = append(res.Weighted, pr)
					}
					if pr.Model != nil && len(res.Samples) < 64 {
						res.Samples = append(res.Samples, pr)
					}
				case StAssumeFail:
				case StViolation, StPanic, StExit, StHang, StDeadlock, StRace:
					if pr.ModelRes == "sat" {
						res.Candidates = append(res.Candidates, pr)
						if cfg.StopOnFirst {
							stop = true
						}
					} else if pr.ModelRes == "unsat" {
						res.ByStatus["infeasible-candidate"]++
					} else {
						res.Inconclusive = append(res.Inconclusive, pr)
					}
				default:
					if len(res.Inconclusive) < 200 {
						res.Inconclusive = append(res.Inconclusive, pr)
					}
				}
				work = append(work, forks...)
				if cfg.MaxPaths > 0 && res.Paths >= cfg.MaxPaths && (len(work) > 0 || active > 0) {
					res.Truncated = fmt.Sprintf("path limit %d reached with %d prefixes pending", cfg.MaxPaths, len(work))
					stop = true
				}
				if !deadline.IsZero() && time.Now().After(deadline) && (len(work) > 0 || active > 0) {
					res.Truncated = fmt.Sprintf("time budget %v reached with %d prefixes pending", cfg.Budget, len(work))
					stop = true
				}
				cond.Broadcast()
				mu.Unlock()
			}
			mu.Lock()
			st := sv.Stats
			res.Solver.Sat += st.Sat
			res.Solver.Unsat += st.Unsat
			res.Solver.Unknown += st.Unknown
			res.Solver.Errors += st.Errors
			res.Solver.Queries += st.Queries
			res.Solver.Time += st.Time
			mu.Unlock()
		}(k)
	}
	wg.Wait()
	select {
	case err := <-errs:
		return nil, err
	default:
	}
	res.Wall = time.Since(t0)
	sort.Slice(res.Candidates, func(i, j int) bool { return len(res.Candidates[i].Trace) < len(res.Candidates[j].Trace) })
	return res, nil
}

// fillVals renders model values into the input records.
func fillVals(pr *PathResult) {
	for _, in := range pr.Inputs {
		in.Val = inputValString(in, pr.Model)
	}
}

// inputValString renders the value of one input under a model in the replay
// file syntax: ints decimal, len as "m/256" rational, f64 as hex bits.
func inputValString(in *InputRec, model map[string]ModelVal) string {
	t := in.term
	if t.IsConst() {
		switch t.sort.K {
		case SBool:
			return fmt.Sprint(t.c == 1)
		case SBV:
			if in.Kind == "int" || in.Kind == "rand" || in.Kind == "choose" || in.Kind == "clock" || in.Kind == "env" {
				return fmt.Sprint(sext64(t.c, int(t.sort.W)))
			}
			return fmt.Sprint(t.c)
		case SFP:
			return fmt.Sprintf("0x%016x", t.c)
		default:
			return t.r.RatString()
		}
	}
	mv, ok := model[in.Name]
	if !ok {
		// unconstrained
		switch t.sort.K {
		case SBool:
			return "false"
		case SFP:
			return "0x0000000000000000"
		default:
			return "0"
		}
	}
	switch t.sort.K {
	case SBool:
		return fmt.Sprint(mv.U == 1)
	case SBV:
		if in.Kind == "int" || in.Kind == "rand" || in.Kind == "clock" || in.Kind == "env" {
			return fmt.Sprint(sext64(mv.U, int(t.sort.W)))
		}
		return fmt.Sprint(mv.U)
	case SFP:
		return fmt.Sprintf("0x%016x", mv.U)
	case SInt:
		if in.Kind == "len" {
			return new(big.Rat).Quo(mv.R, big.NewRat(1<<sxLenBits, 1)).RatString()
		}
		return mv.R.RatString()
	default:
		return mv.R.RatString()
	}
}

// ConcreteTable converts rendered input values back to model values for a
// concrete run of the interpreter.
func ConcreteTable(inputs []*InputRec) map[string]ModelVal {
	m := map[string]ModelVal{}
	for _, in := range inputs {
		var mv ModelVal
		switch in.Kind {
		case "bool":
			mv = ModelVal{Kind: SBool}
			if in.Val == "true" {
				mv.U = 1
			}
		case "f64":
			var u uint64
			fmt.Sscanf(in.Val, "0x%x", &u)
			mv = ModelVal{Kind: SFP, U: u}
		case "len", "randf", "parsefloat":
			r, _ := new(big.Rat).SetString(in.Val)
			if r == nil {
				r = new(big.Rat)
			}
			mv = ModelVal{Kind: SReal, R: r}
		default:
			var v int64
			var u uint64
			if strings.HasPrefix(in.Val, "-") {
				fmt.Sscanf(in.Val, "%d", &v)
				u = uint64(v)
			} else {
				fmt.Sscanf(in.Val, "%d", &u)
			}
			mv = ModelVal{Kind: SBV, U: u}
		}
		m[in.Name] = mv
	}
	return m
}

var _ = math.MaxInt64
