// Copyright 2013 The Go Authors. All rights reserved.
// Use of this source code is governed by a BSD-style
// license that can be found in the LICENSE file.

// Package interp is a symbolic fork of golang.org/x/tools/go/ssa/interp:
// scalar values may be SMT terms, heap shape stays concrete, control flow on
// symbolic conditions forks the path (stateless, replay based), goroutines
// are scheduled cooperatively, and run-time panics of the target are raised
// explicitly so that they can be told apart from interpreter crashes.
package interp

import (
	"fmt"
	"go/token"
	"go/types"
	"log"
	"os"
	"runtime/debug"
	"slices"
	"strings"

	"golang.org/x/tools/go/ssa"
)

type continuation int

const (
	kNext continuation = iota
	kReturn
	kJump
)

// Mode is a bitmask of options affecting the interpreter.
type Mode uint

const (
	DisableRecover Mode = 1 << iota
	EnableTracing
)

// State shared between all interpreted goroutines of one worker.
type interpreter struct {
	prog               *ssa.Program
	globals            map[*ssa.Global]*value
	mode               Mode
	runtimeErrorString types.Type
	sizes              types.Sizes
	ps                 *pathState
	w                  *Worker
	harnessPkgs        map[*ssa.Package]bool
	initDone           map[*ssa.Package]string
	regions            map[*ssa.If]*ifRegion
}

type deferred struct {
	fn    value
	args  []value
	instr *ssa.Defer
	tail  *deferred
}

type frame struct {
	i                *interpreter
	caller           *frame
	fn               *ssa.Function
	block, prevBlock *ssa.BasicBlock
	env              map[ssa.Value]value
	locals           []value
	defers           *deferred
	result           value
	panicking        bool
	panic            interface{}
	phitemps         []value
	depth            int
	skipPhis         bool
}

func mustDeref(t types.Type) types.Type {
	if p, ok := t.Underlying().(*types.Pointer); ok {
		return p.Elem()
	}
	panic(fmt.Sprintf("mustDeref: %v is not a pointer", t))
}

func (fr *frame) get(key ssa.Value) value {
	switch key := key.(type) {
	case nil:
		return nil
	case *ssa.Function, *ssa.Builtin:
		return key
	case *ssa.Const:
		return constValue(key)
	case *ssa.Global:
		if r, ok := fr.i.globals[key]; ok {
			return r
		}
	}
	if r, ok := fr.env[key]; ok {
		return r
	}
	panic(fmt.Sprintf("get: no value for %T: %v", key, key.Name()))
}

// enginePanic reports whether a recovered Go panic value belongs to the
// engine (path termination etc.) rather than to the target program.
func enginePanic(p interface{}) bool {
	switch p.(type) {
	case pathEnd, killG, unsupportedErr:
		return true
	}
	return false
}

func (fr *frame) runDefer(d *deferred) {
	var ok bool
	defer func() {
		if !ok {
			r := recover()
			if enginePanic(r) {
				panic(r)
			}
			fr.panicking = true
			fr.panic = r
		}
	}()
	call(fr.i, fr, d.instr.Pos(), d.fn, d.args)
	ok = true
}

func (fr *frame) runDefers() {
	for d := fr.defers; d != nil; d = d.tail {
		fr.runDefer(d)
	}
	fr.defers = nil
	if fr.panicking {
		panic(fr.panic)
	}
}

func lookupMethod(i *interpreter, typ types.Type, meth *types.Func) *ssa.Function {
	return i.prog.LookupMethod(typ, meth.Pkg(), meth.Name())
}

func (ps *pathState) nilDeref() {
	ps.targetRuntimePanic("invalid memory address or nil pointer dereference")
}

// checkIndex resolves an index value against a length: raises the bounds
// obligation and returns either a concrete index or (for symbolic ones that
// are in bounds on this path) the 64-bit term.
func (ps *pathState) checkIndex(idx value, n int, what string) (int, *Term) {
	if s, ok := idx.(sym); ok {
		_, signed := kindBits(s.k)
		t := s.t
		var inb *Term
		if signed {
			t64 := ps.ts.Sext(t, 64)
			inb = ps.ts.And(ps.ts.BvCmp(OpBvSle, ps.ts.BV(0, 64), t64), ps.ts.BvCmp(OpBvSlt, t64, ps.ts.BV(uint64(n), 64)))
			t = t64
		} else {
			t64 := ps.ts.Zext(t, 64)
			inb = ps.ts.BvCmp(OpBvUlt, t64, ps.ts.BV(uint64(n), 64))
			t = t64
		}
		if !ps.decide(inb) {
			ps.targetRuntimePanic(fmt.Sprintf("index out of range [symbolic] with length %d (%s)", n, what))
		}
		return -1, t
	}
	i := asInt64(idx)
	if i < 0 || i >= int64(n) {
		ps.targetRuntimePanic(fmt.Sprintf("index out of range [%d] with length %d", i, n))
	}
	return int(i), nil
}

// concInt returns a concrete int for v, forking over feasible values of a
// symbolic one.
func (ps *pathState) concInt(v value, why string) int64 {
	if s, ok := v.(sym); ok {
		w, signed := kindBits(s.k)
		u := ps.concretise(s.t, why)
		if signed {
			return sext64(u, w)
		}
		return int64(u)
	}
	return asInt64(v)
}

func (ps *pathState) where() string {
	if ps == nil || ps.w == nil {
		return ""
	}
	return ps.w.posStr(ps.curPos)
}

// visitInstr interprets a single ssa.Instruction.
func visitInstr(fr *frame, instr ssa.Instruction) continuation {
	ps := fr.i.ps
	ps.steps++
	if ps.steps > ps.maxSteps {
		panic(pathEnd{StHang, fmt.Sprintf("unwinding bound exceeded (%d SSA instructions) in %s", ps.maxSteps, fr.fn)})
	}
	if p := instr.Pos(); p != token.NoPos {
		ps.curPos = p
	}
	switch instr := instr.(type) {
	case *ssa.DebugRef:
		// no-op

	case *ssa.UnOp:
		fr.env[instr] = unop(fr, instr, fr.get(instr.X))

	case *ssa.BinOp:
		fr.env[instr] = binop(ps, instr.Op, instr.X.Type(), fr.get(instr.X), fr.get(instr.Y))

	case *ssa.Call:
		fn, args := prepareCall(fr, &instr.Call)
		fr.env[instr] = call(fr.i, fr, instr.Pos(), fn, args)

	case *ssa.ChangeInterface:
		fr.env[instr] = fr.get(instr.X)

	case *ssa.ChangeType:
		fr.env[instr] = fr.get(instr.X)

	case *ssa.Convert:
		fr.env[instr] = conv(ps, instr.Type(), instr.X.Type(), fr.get(instr.X))

	case *ssa.SliceToArrayPointer:
		fr.env[instr] = sliceToArrayPointer(instr.Type(), instr.X.Type(), fr.get(instr.X))

	case *ssa.MakeInterface:
		fr.env[instr] = iface{t: instr.X.Type(), v: fr.get(instr.X)}

	case *ssa.Extract:
		fr.env[instr] = fr.get(instr.Tuple).(tuple)[instr.Index]

	case *ssa.Slice:
		fr.env[instr] = slice(ps, fr.get(instr.X), fr.get(instr.Low), fr.get(instr.High), fr.get(instr.Max))

	case *ssa.Return:
		switch len(instr.Results) {
		case 0:
		case 1:
			fr.result = fr.get(instr.Results[0])
		default:
			var res []value
			for _, r := range instr.Results {
				res = append(res, fr.get(r))
			}
			fr.result = tuple(res)
		}
		fr.block = nil
		return kReturn

	case *ssa.RunDefers:
		fr.runDefers()

	case *ssa.Panic:
		panic(targetPanic{fr.get(instr.X)})

	case *ssa.Send:
		ps.sched.send(fr.get(instr.Chan).(*channel), fr.get(instr.X))

	case *ssa.Store:
		addr := fr.get(instr.Addr)
		switch a := addr.(type) {
		case *value:
			if a == nil {
				ps.nilDeref()
			}
			ps.sched.access(a, true)
			store(mustDeref(instr.Addr.Type()), a, fr.get(instr.Val))
		case *idxptr:
			a.store(ps, fr.get(instr.Val))
		default:
			panic(fmt.Sprintf("store to %T", addr))
		}

	case *ssa.If:
		succ := 1
		switch c := fr.get(instr.Cond).(type) {
		case bool:
			if c {
				succ = 0
			}
		case sym:
			if fr.tryIfConvert(instr, c.t) {
				return kJump
			}
			ps.lastSite = fr.fn.String()
			if ps.decide(c.t) {
				succ = 0
			}
		default:
			panic(fmt.Sprintf("If on %T", c))
		}
		fr.prevBlock, fr.block = fr.block, fr.block.Succs[succ]
		return kJump

	case *ssa.Jump:
		fr.prevBlock, fr.block = fr.block, fr.block.Succs[0]
		return kJump

	case *ssa.Defer:
		fn, args := prepareCall(fr, &instr.Call)
		defers := &fr.defers
		if into := fr.get(instr.DeferStack); into != nil {
			defers = into.(**deferred)
		}
		*defers = &deferred{fn: fn, args: args, instr: instr, tail: *defers}

	case *ssa.Go:
		fn, args := prepareCall(fr, &instr.Call)
		i := fr.i
		pos := instr.Pos()
		ps.sched.spawn(ps.sched.cur, func() {
			call(i, nil, pos, fn, args)
		})
		ps.sched.preempt(ps.sched.cur)

	case *ssa.MakeChan:
		n := ps.concInt(fr.get(instr.Size), "make(chan) size")
		if n < 0 {
			ps.targetRuntimePanic("makechan: size out of range")
		}
		fr.env[instr] = &channel{cap: int(n)}

	case *ssa.Alloc:
		var addr *value
		if instr.Heap {
			addr = new(value)
			fr.env[instr] = addr
		} else {
			addr = fr.env[instr].(*value)
		}
		*addr = zero(mustDeref(instr.Type()))

	case *ssa.MakeSlice:
		c := ps.concInt(fr.get(instr.Cap), "make([]T) cap")
		l := ps.concInt(fr.get(instr.Len), "make([]T) len")
		if l < 0 || c < l {
			ps.targetRuntimePanic("makeslice: len out of range")
		}
		if c > 1<<24 {
			panic(pathEnd{StUnsupported, fmt.Sprintf("make([]T, %d) too large for the engine", c)})
		}
		slice := make([]value, c)
		tElt := instr.Type().Underlying().(*types.Slice).Elem()
		for i := range slice {
			slice[i] = zero(tElt)
		}
		fr.env[instr] = slice[:l]

	case *ssa.MakeMap:
		fr.env[instr] = makeMap(instr.Type().Underlying().(*types.Map).Key(), 0)

	case *ssa.Range:
		it := rangeIter(ps, fr.get(instr.X), instr.X.Type())
		if oi, ok := it.(*omapIter); ok {
			// iteration order is explored only for the map ranges of /repo's own code
			oi.nondet = ps.nondetMap && repoFunc(fr.fn) && (fr.fn.Pkg == nil || !fr.i.harnessPkgs[fr.fn.Pkg] || strings.HasSuffix(fr.fn.Pkg.Pkg.Path(), "/gotree/cmd") && !strings.HasPrefix(fr.fn.Name(), "H_") && !strings.HasPrefix(fr.fn.Name(), "zz"))
		}
		fr.env[instr] = it

	case *ssa.Next:
		fr.env[instr] = fr.get(instr.Iter).(iter).next()

	case *ssa.FieldAddr:
		x := fr.get(instr.X)
		switch p := x.(type) {
		case *value:
			if p == nil {
				ps.nilDeref()
			}
			fr.env[instr] = &(*p).(structure)[instr.Field]
		case *idxptr:
			q := p.concretePtr(ps)
			fr.env[instr] = &(*q).(structure)[instr.Field]
		default:
			panic(fmt.Sprintf("FieldAddr on %T", x))
		}

	case *ssa.Field:
		fr.env[instr] = fr.get(instr.X).(structure)[instr.Field]

	case *ssa.IndexAddr:
		x := fr.get(instr.X)
		idx := fr.get(instr.Index)
		var elems []value
		switch x := x.(type) {
		case []value:
			elems = x
		case *value: // *array
			if x == nil {
				ps.nilDeref()
			}
			elems = (*x).(array)
		default:
			panic(fmt.Sprintf("unexpected x type in IndexAddr: %T", x))
		}
		ci, t := ps.checkIndex(idx, len(elems), "IndexAddr")
		if t == nil {
			fr.env[instr] = &elems[ci]
		} else {
			fr.env[instr] = &idxptr{elems: elems, idx: t}
		}

	case *ssa.Index:
		x := fr.get(instr.X)
		idx := fr.get(instr.Index)
		var elems []value
		switch x := x.(type) {
		case array:
			elems = x
		case string:
			ci, t := ps.checkIndex(idx, len(x), "string index")
			if t == nil {
				fr.env[instr] = x[ci]
				return kNext
			}
			fr.env[instr] = (&idxptr{elems: strElems(x), idx: t}).load(ps)
			return kNext
		case *symstr:
			elems = x.e
		default:
			panic(fmt.Sprintf("unexpected x type in Index: %T", x))
		}
		ci, t := ps.checkIndex(idx, len(elems), "Index")
		if t == nil {
			fr.env[instr] = elems[ci]
		} else {
			fr.env[instr] = (&idxptr{elems: elems, idx: t}).load(ps)
		}

	case *ssa.Lookup:
		fr.env[instr] = lookup(ps, instr, fr.get(instr.X), fr.get(instr.Index))

	case *ssa.MapUpdate:
		m := fr.get(instr.Map).(*omap)
		if m == nil {
			ps.targetRuntimePanic("assignment to entry in nil map")
		}
		m.insert(ps, fr.get(instr.Key), fr.get(instr.Value))

	case *ssa.TypeAssert:
		fr.env[instr] = typeAssert(fr.i, instr, fr.get(instr.X).(iface))

	case *ssa.MakeClosure:
		var bindings []value
		for _, binding := range instr.Bindings {
			bindings = append(bindings, fr.get(binding))
		}
		fr.env[instr] = &closure{instr.Fn.(*ssa.Function), bindings}

	case *ssa.Phi:
		log.Fatal("unreachable") // phis are processed at block entry

	case *ssa.Select:
		fr.env[instr] = doSelect(fr, instr)

	default:
		panic(fmt.Sprintf("unexpected instruction: %T", instr))
	}
	return kNext
}

func doSelect(fr *frame, instr *ssa.Select) value {
	ps := fr.i.ps
	s := ps.sched
	g := s.cur
	type scase struct {
		ch   *channel
		send bool
		v    value
	}
	var cases []scase
	for _, st := range instr.States {
		c := scase{ch: fr.get(st.Chan).(*channel), send: st.Dir == types.SendOnly}
		if c.send {
			c.v = fr.get(st.Send)
		}
		cases = append(cases, c)
	}
	ready := func() []int {
		var r []int
		for i, c := range cases {
			if c.ch == nil {
				continue
			}
			if c.send {
				if c.ch.closed || (c.ch.cap > 0 && len(c.ch.buf) < c.ch.cap) || (c.ch.cap == 0 && c.ch.recvWaiting > 0) {
					r = append(r, i)
				}
			} else if s.recvReady(c.ch) {
				r = append(r, i)
			}
		}
		return r
	}
	s.preempt(g)
	var rdy []int
	if instr.Blocking {
		for _, c := range cases {
			if c.ch != nil && !c.send {
				c.ch.recvWaiting++
			}
		}
		s.block(g, func() bool { return len(ready()) > 0 }, "select")
		for _, c := range cases {
			if c.ch != nil && !c.send {
				c.ch.recvWaiting--
			}
		}
	}
	rdy = ready()
	chosen := -1
	if len(rdy) > 0 {
		if s.explore && len(rdy) > 1 {
			chosen = rdy[ps.choose('s', len(rdy))]
		} else {
			chosen = rdy[0]
		}
	}
	recvOk := false
	var recvVal value
	if chosen >= 0 {
		c := cases[chosen]
		if c.send {
			s.send(c.ch, c.v)
		} else {
			recvVal, recvOk = s.recvNow(g, c.ch)
		}
	}
	r := tuple{chosen, recvOk}
	for i, st := range instr.States {
		if st.Dir == types.RecvOnly {
			var v value
			if i == chosen && recvOk {
				v = recvVal
			} else {
				v = zero(st.Chan.Type().Underlying().(*types.Chan).Elem())
			}
			r = append(r, v)
		}
	}
	return r
}

func prepareCall(fr *frame, call *ssa.CallCommon) (fn value, args []value) {
	v := fr.get(call.Value)
	if call.Method == nil {
		fn = v
	} else {
		recv := v.(iface)
		if recv.t == nil {
			fr.i.ps.nilDeref()
		}
		if f := lookupMethod(fr.i, recv.t, call.Method); f == nil {
			panic(fmt.Sprintf("method set for dynamic type %v does not contain %s", recv.t, call.Method))
		} else {
			fn = f
		}
		args = append(args, recv.v)
	}
	for _, arg := range call.Args {
		args = append(args, fr.get(arg))
	}
	return
}

func call(i *interpreter, caller *frame, callpos token.Pos, fn value, args []value) value {
	switch fn := fn.(type) {
	case *ssa.Function:
		if fn == nil {
			i.ps.nilDeref()
		}
		return callSSA(i, caller, callpos, fn, args, nil)
	case *closure:
		return callSSA(i, caller, callpos, fn.Fn, args, fn.Env)
	case *ssa.Builtin:
		return callBuiltin(caller, callpos, fn, args)
	case *nativeFn:
		return fn.f(i, args)
	}
	panic(fmt.Sprintf("cannot call %T", fn))
}

// nativeFn is a function value implemented by the engine.
type nativeFn struct {
	name string
	f    func(i *interpreter, args []value) value
}

const repoPrefix = "github.com/evolbioinfo/gotree"

func repoFunc(fn *ssa.Function) bool {
	p := fn.Pkg
	if p == nil && fn.Origin() != nil {
		p = fn.Origin().Pkg
	}
	if p == nil && fn.Parent() != nil {
		return repoFunc(fn.Parent())
	}
	if p == nil {
		// methods wrappers etc.
		if o := fn.Object(); o != nil && o.Pkg() != nil {
			return strings.HasPrefix(o.Pkg().Path(), repoPrefix)
		}
		return false
	}
	return strings.HasPrefix(p.Pkg.Path(), repoPrefix)
}

func callSSA(i *interpreter, caller *frame, callpos token.Pos, fn *ssa.Function, args []value, env []value) value {
	ps := i.ps
	fr := &frame{i: i, caller: caller, fn: fn}
	if caller != nil {
		fr.depth = caller.depth + 1
		if fr.depth > ps.maxDepth {
			panic(pathEnd{StHang, fmt.Sprintf("recursion depth bound exceeded (%d) in %s", ps.maxDepth, fn)})
		}
	}
	if fn.Parent() == nil {
		if ps.initMode && caller != nil && fn.Name() == "init" && fn.Pkg != nil && fn == fn.Pkg.Func("init") {
			return nil // imported packages are initialised separately, in dependency order
		}
		if ps.initMode && !i.w.cfg.RunCmdInits && strings.HasPrefix(fn.Name(), "init#") && fn.Pkg != nil && strings.HasSuffix(fn.Pkg.Pkg.Path(), "/gotree/cmd") {
			return nil // flag registration is not executed (C19 reads it statically)
		}
		if fn.Pkg != nil && i.harnessPkgs[fn.Pkg] && strings.HasPrefix(fn.Name(), "sx") {
			if ext := sxFuncs[fn.Name()]; ext != nil {
				return ext(fr, args)
			}
		}
		if fn.Pkg != nil && i.harnessPkgs[fn.Pkg] && !strings.HasPrefix(fn.Name(), "zz_") {
			// environment stub provided by an in-package harness: zz_<name>
			if st := fn.Pkg.Func("zz_" + fn.Name()); st != nil && st.Signature.Recv() == nil && fn.Signature.Recv() == nil {
				if ps.stubs != nil {
					ps.stubs[fn.String()+" (replaced by harness stub zz_"+fn.Name()+")"] = true
				}
				fn = st
				fr.fn = st
			}
		}
		name := fn.String()
		if ps.stubTaxHash && name == "github.com/evolbioinfo/gotree/tree.tax_hash" {
			// stub: an arbitrary (symbolic) 64-bit hash per distinct taxon name
			nm := concStr(args[0], "tax_hash name")
			key := "taxhash:" + nm
			if v, ok := ps.memo[key]; ok {
				return v
			}
			if ps.stubs != nil {
				ps.stubs[name+" (stub: arbitrary uint64 per distinct name)"] = true
			}
			hv := ps.newInput(key, "taxhash", bvSort(64))
			if ps.taxHashBits > 0 && ps.taxHashBits < 64 {
				// small hash domain: many collisions, few bucket layouts
				ps.addPC(ps.ts.BvCmp(OpBvUlt, hv, ps.ts.BV(uint64(1)<<uint(ps.taxHashBits), 64)))
			}
			v := mkval(types.Uint64, hv)
			ps.memo[key] = v
			return v
		}
		if ext := externals[name]; ext != nil {
			if ps.stubs != nil {
				ps.stubs[name] = true
			}
			return ext(fr, args)
		}
		if fn.Blocks == nil {
			panic(pathEnd{StUnsupported, "no code for function: " + name})
		}
	}
	if ps.funcs != nil && repoFunc(fn) && (fn.Pkg == nil || !i.harnessPkgs[fn.Pkg]) {
		ps.funcs[fn.String()] = true
	}

	if fn.TypeParams().Len() > 0 && len(fn.TypeArgs()) == 0 {
		panic(pathEnd{StUnsupported, "uninstantiated generic function " + fn.String()})
	}

	fr.env = make(map[ssa.Value]value)
	fr.block = fn.Blocks[0]
	fr.locals = make([]value, len(fn.Locals))
	for i, l := range fn.Locals {
		fr.locals[i] = zero(mustDeref(l.Type()))
		fr.env[l] = &fr.locals[i]
	}
	for i, p := range fn.Params {
		fr.env[p] = args[i]
	}
	for i, fv := range fn.FreeVars {
		fr.env[fv] = env[i]
	}
	for fr.block != nil {
		runFrame(fr)
	}
	return fr.result
}

func runFrame(fr *frame) {
	defer func() {
		if fr.block == nil {
			return // normal return
		}
		r := recover()
		if enginePanic(r) {
			panic(r)
		}
		switch r.(type) {
		case targetPanic:
		case exitPanic:
			panic(r)
		default:
			// interpreter crash: not a target panic
			panic(pathEnd{StEngineError, fmt.Sprintf("%v in %s%s\n%s", r, fr.fn, fr.i.ps.where(), debug.Stack())})
		}
		fr.panicking = true
		fr.panic = r
		fr.runDefers()
		fr.block = fr.fn.Recover
	}()

	for {
		nonPhis := executePhis(fr)
		for _, instr := range nonPhis {
			if fr.i.mode&EnableTracing != 0 {
				if v, ok := instr.(ssa.Value); ok {
					fmt.Fprintln(os.Stderr, "\t", fr.fn.Name(), v.Name(), "=", instr)
				} else {
					fmt.Fprintln(os.Stderr, "\t", fr.fn.Name(), instr)
				}
			}
			if visitInstr(fr, instr) == kReturn {
				return
			}
		}
	}
}

func executePhis(fr *frame) []ssa.Instruction {
	firstNonPhi := -1
	for i, instr := range fr.block.Instrs {
		if _, ok := instr.(*ssa.Phi); !ok {
			firstNonPhi = i
			break
		}
	}
	nonPhis := fr.block.Instrs[firstNonPhi:]
	if fr.skipPhis {
		fr.skipPhis = false
		return nonPhis
	}
	if firstNonPhi > 0 {
		phis := fr.block.Instrs[:firstNonPhi]
		predIndex := slices.Index(fr.block.Preds, fr.prevBlock)
		fr.phitemps = fr.phitemps[:0]
		for _, phi := range phis {
			phi := phi.(*ssa.Phi)
			fr.phitemps = append(fr.phitemps, fr.get(phi.Edges[predIndex]))
		}
		for i, phi := range phis {
			fr.env[phi.(*ssa.Phi)] = fr.phitemps[i]
		}
	}
	return nonPhis
}

func doRecover(caller *frame) value {
	if caller.i.mode&DisableRecover == 0 &&
		caller != nil && !caller.panicking &&
		caller.caller != nil && caller.caller.panicking {
		caller.caller.panicking = false
		p := caller.caller.panic
		caller.caller.panic = nil
		switch p := p.(type) {
		case targetPanic:
			if re, ok := p.v.(runtimeErr); ok {
				return iface{caller.i.runtimeErrorString, re.String()}
			}
			return p.v
		default:
			panic(fmt.Sprintf("unexpected panic type %T in target call to recover()", p))
		}
	}
	return iface{}
}
