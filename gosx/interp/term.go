package interp

// Hash-consed SMT terms with constant folding and AC normalisation.
// One TermStore per worker; terms never cross workers.

import (
	"fmt"
	"math"
	"math/big"
	"sort"
	"strings"
)

type SortKind uint8

const (
	SBool SortKind = iota
	SBV
	SReal
	SInt
	SFP // FloatingPoint 11 53
)

type Sort struct {
	K SortKind
	W uint8 // bit width for SBV
}

func (s Sort) String() string {
	switch s.K {
	case SBool:
		return "Bool"
	case SBV:
		return fmt.Sprintf("(_ BitVec %d)", s.W)
	case SReal:
		return "Real"
	case SInt:
		return "Int"
	case SFP:
		return "(_ FloatingPoint 11 53)"
	}
	return "?"
}

var (
	sortBool = Sort{SBool, 0}
	sortReal = Sort{SReal, 0}
	sortInt  = Sort{SInt, 0}
	sortFP   = Sort{SFP, 0}
)

func bvSort(w int) Sort { return Sort{SBV, uint8(w)} }

type Op uint8

const (
	OpVar Op = iota
	OpConst
	OpNot
	OpAnd
	OpOr
	OpEq
	OpIte
	// bit-vectors
	OpBvAdd
	OpBvMul
	OpBvSub
	OpBvNeg
	OpBvUdiv
	OpBvUrem
	OpBvSdiv
	OpBvSrem
	OpBvAnd
	OpBvOr
	OpBvXor
	OpBvNot
	OpBvShl
	OpBvLshr
	OpBvAshr
	OpBvUlt
	OpBvUle
	OpBvSlt
	OpBvSle
	OpExtract // aux = hi<<8|lo
	OpZext    // aux = extra bits
	OpSext
	// reals / ints
	OpRAdd
	OpRMul // one operand constant (linear) or UF otherwise
	OpRNeg
	OpRLt
	OpRLe
	OpToReal // Int -> Real
	OpRDivC  // real / const
	// floating point
	OpFAdd
	OpFSub
	OpFMul
	OpFDiv
	OpFNeg
	OpFLt
	OpFLe
	OpFEq
	OpFIsNaN
	OpFIsInf
	OpFFromSBV // aux unused
	OpFFromUBV
	OpFToSBV // aux = width, RTZ
	OpFToUBV
	OpFToReal
	// uninterpreted
	OpUF // name = function name
	// bv <-> int
	OpBv2Int  // unsigned
	OpSBv2Int // signed (printed via ite)
	OpInt2Bv  // aux=width
)

var opNames = map[Op]string{
	OpNot: "not", OpAnd: "and", OpOr: "or", OpEq: "=", OpIte: "ite",
	OpBvAdd: "bvadd", OpBvMul: "bvmul", OpBvSub: "bvsub", OpBvNeg: "bvneg",
	OpBvUdiv: "bvudiv", OpBvUrem: "bvurem", OpBvSdiv: "bvsdiv", OpBvSrem: "bvsrem",
	OpBvAnd: "bvand", OpBvOr: "bvor", OpBvXor: "bvxor", OpBvNot: "bvnot",
	OpBvShl: "bvshl", OpBvLshr: "bvlshr", OpBvAshr: "bvashr",
	OpBvUlt: "bvult", OpBvUle: "bvule", OpBvSlt: "bvslt", OpBvSle: "bvsle",
	OpRAdd: "+", OpRMul: "*", OpRNeg: "-", OpRLt: "<", OpRLe: "<=", OpToReal: "to_real", OpRDivC: "/",
	OpFAdd: "fp.add RNE", OpFSub: "fp.sub RNE", OpFMul: "fp.mul RNE", OpFDiv: "fp.div RNE", OpFNeg: "fp.neg",
	OpFLt: "fp.lt", OpFLe: "fp.leq", OpFEq: "fp.eq", OpFIsNaN: "fp.isNaN", OpFIsInf: "fp.isInfinite",
	OpFToReal: "fp.to_real", OpBv2Int: "bv2nat",
}

type Term struct {
	id   int
	op   Op
	sort Sort
	args []*Term
	aux  int      // extract bounds, widths
	c    uint64   // constant payload (bool 0/1, bv value, fp bits)
	r    *big.Rat // real/int constant
	name string   // variable or UF name
	key  string
}

func (t *Term) IsConst() bool { return t.op == OpConst }
func (t *Term) Sort() Sort    { return t.sort }
func (t *Term) ID() int       { return t.id }

type TermStore struct {
	tab   map[string]*Term
	terms []*Term
	True  *Term
	False *Term
	nvar  int
	// variables in creation order (for model extraction)
	Vars []*Term
	// UF signatures
	ufs map[string]string
}

func NewTermStore() *TermStore {
	ts := &TermStore{tab: map[string]*Term{}, ufs: map[string]string{}}
	ts.True = ts.mk(&Term{op: OpConst, sort: sortBool, c: 1})
	ts.False = ts.mk(&Term{op: OpConst, sort: sortBool, c: 0})
	return ts
}

func (ts *TermStore) mk(t *Term) *Term {
	var sb strings.Builder
	fmt.Fprintf(&sb, "%d|%d.%d|%d|%x|%s|", t.op, t.sort.K, t.sort.W, t.aux, t.c, t.name)
	if t.r != nil {
		sb.WriteString(t.r.String())
	}
	for _, a := range t.args {
		fmt.Fprintf(&sb, ",%d", a.id)
	}
	k := sb.String()
	if old, ok := ts.tab[k]; ok {
		return old
	}
	t.id = len(ts.terms)
	t.key = k
	ts.terms = append(ts.terms, t)
	ts.tab[k] = t
	return t
}

func (ts *TermStore) Var(name string, s Sort) *Term {
	t := ts.mk(&Term{op: OpVar, sort: s, name: name})
	if t.id == len(ts.terms)-1 && (len(ts.Vars) == 0 || ts.Vars[len(ts.Vars)-1] != t) {
		ts.Vars = append(ts.Vars, t)
	}
	return t
}

func (ts *TermStore) FreshVar(prefix string, s Sort) *Term {
	ts.nvar++
	return ts.Var(fmt.Sprintf("%s!%d", prefix, ts.nvar), s)
}

func (ts *TermStore) Bool(b bool) *Term {
	if b {
		return ts.True
	}
	return ts.False
}

func mask(w int) uint64 {
	if w >= 64 {
		return ^uint64(0)
	}
	return (uint64(1) << uint(w)) - 1
}

func (ts *TermStore) BV(v uint64, w int) *Term {
	return ts.mk(&Term{op: OpConst, sort: bvSort(w), c: v & mask(w)})
}

func (ts *TermStore) RealRat(r *big.Rat) *Term {
	return ts.mk(&Term{op: OpConst, sort: sortReal, r: new(big.Rat).Set(r)})
}

func (ts *TermStore) RealF(f float64) *Term {
	r := new(big.Rat)
	if r.SetFloat64(f) == nil {
		panic(unsupported(fmt.Sprintf("non-finite float %v in real encoding", f)))
	}
	return ts.RealRat(r)
}

func (ts *TermStore) IntC(v int64) *Term {
	return ts.mk(&Term{op: OpConst, sort: sortInt, r: new(big.Rat).SetInt64(v)})
}

func (ts *TermStore) FP(f float64) *Term {
	return ts.mk(&Term{op: OpConst, sort: sortFP, c: math.Float64bits(f)})
}

func sext64(v uint64, w int) int64 {
	if w >= 64 {
		return int64(v)
	}
	sh := uint(64 - w)
	return int64(v<<sh) >> sh
}

// ---- boolean ----

func (ts *TermStore) Not(a *Term) *Term {
	if a.IsConst() {
		return ts.Bool(a.c == 0)
	}
	if a.op == OpNot {
		return a.args[0]
	}
	return ts.mk(&Term{op: OpNot, sort: sortBool, args: []*Term{a}})
}

func (ts *TermStore) And(xs ...*Term) *Term {
	var out []*Term
	seen := map[int]bool{}
	for _, x := range xs {
		if x.IsConst() {
			if x.c == 0 {
				return ts.False
			}
			continue
		}
		if x.op == OpAnd {
			for _, y := range x.args {
				if !seen[y.id] {
					seen[y.id] = true
					out = append(out, y)
				}
			}
			continue
		}
		if !seen[x.id] {
			seen[x.id] = true
			out = append(out, x)
		}
	}
	for _, x := range out {
		if x.op == OpNot && seen[x.args[0].id] {
			return ts.False
		}
	}
	if len(out) == 0 {
		return ts.True
	}
	if len(out) == 1 {
		return out[0]
	}
	sort.Slice(out, func(i, j int) bool { return out[i].id < out[j].id })
	return ts.mk(&Term{op: OpAnd, sort: sortBool, args: out})
}

func (ts *TermStore) Or(xs ...*Term) *Term {
	neg := make([]*Term, len(xs))
	for i, x := range xs {
		neg[i] = ts.Not(x)
	}
	return ts.Not(ts.And(neg...))
}

func (ts *TermStore) Implies(a, b *Term) *Term { return ts.Or(ts.Not(a), b) }

func (ts *TermStore) Eq(a, b *Term) *Term {
	if a == b {
		if a.sort.K != SFP { // structural FP equality is SMT "=" (bit identity incl. NaN): fine
			return ts.True
		}
		return ts.True
	}
	if a.sort != b.sort {
		panic(fmt.Sprintf("Eq: sort mismatch %v %v", a.sort, b.sort))
	}
	if a.IsConst() && b.IsConst() {
		switch a.sort.K {
		case SReal, SInt:
			return ts.Bool(a.r.Cmp(b.r) == 0)
		default:
			return ts.Bool(a.c == b.c)
		}
	}
	if a.sort.K == SBool {
		if a.IsConst() {
			a, b = b, a
		}
		if b.IsConst() {
			if b.c == 1 {
				return a
			}
			return ts.Not(a)
		}
	}
	if a.id > b.id {
		a, b = b, a
	}
	return ts.mk(&Term{op: OpEq, sort: sortBool, args: []*Term{a, b}})
}

func (ts *TermStore) Ite(c, a, b *Term) *Term {
	if c.IsConst() {
		if c.c == 1 {
			return a
		}
		return b
	}
	if a == b {
		return a
	}
	if a.sort.K == SBool {
		if a.IsConst() && b.IsConst() {
			if a.c == 1 {
				return c
			}
			return ts.Not(c)
		}
		return ts.Or(ts.And(c, a), ts.And(ts.Not(c), b))
	}
	if c.op == OpNot {
		return ts.Ite(c.args[0], b, a)
	}
	return ts.mk(&Term{op: OpIte, sort: a.sort, args: []*Term{c, a, b}})
}

// ---- bit-vectors ----

func (ts *TermStore) bvAC(op Op, w int, xs []*Term) *Term {
	// flatten, fold constants, sort by id
	var acc uint64
	switch op {
	case OpBvAdd, OpBvOr, OpBvXor:
		acc = 0
	case OpBvMul:
		acc = 1
	case OpBvAnd:
		acc = mask(w)
	}
	var out []*Term
	var flat func(t *Term)
	flat = func(t *Term) {
		if t.IsConst() {
			switch op {
			case OpBvAdd:
				acc += t.c
			case OpBvMul:
				acc *= t.c
			case OpBvAnd:
				acc &= t.c
			case OpBvOr:
				acc |= t.c
			case OpBvXor:
				acc ^= t.c
			}
			acc &= mask(w)
			return
		}
		if t.op == op {
			for _, a := range t.args {
				flat(a)
			}
			return
		}
		out = append(out, t)
	}
	for _, x := range xs {
		flat(x)
	}
	switch op {
	case OpBvMul:
		if acc == 0 {
			return ts.BV(0, w)
		}
	case OpBvAnd:
		if acc == 0 {
			return ts.BV(0, w)
		}
	case OpBvOr:
		if acc == mask(w) {
			return ts.BV(acc, w)
		}
	}
	sort.Slice(out, func(i, j int) bool { return out[i].id < out[j].id })
	if op == OpBvAdd {
		// collect coefficients: c1*t + c2*t = (c1+c2)*t
		type ct struct {
			t *Term
			c uint64
		}
		var cs []ct
		idx := map[int]int{}
		for _, x := range out {
			t, c := x, uint64(1)
			if x.op == OpBvMul && len(x.args) == 2 && x.args[0].IsConst() {
				t, c = x.args[1], x.args[0].c
			}
			if i, ok := idx[t.id]; ok {
				cs[i].c = (cs[i].c + c) & mask(w)
			} else {
				idx[t.id] = len(cs)
				cs = append(cs, ct{t, c})
			}
		}
		out = out[:0]
		for _, e := range cs {
			if e.c == 0 {
				continue
			}
			if e.c == 1 {
				out = append(out, e.t)
			} else {
				out = append(out, ts.mk(&Term{op: OpBvMul, sort: bvSort(w), args: []*Term{ts.BV(e.c, w), e.t}}))
			}
		}
		sort.Slice(out, func(i, j int) bool { return out[i].id < out[j].id })
	}
	if op == OpBvAnd || op == OpBvOr {
		// idempotent: dedupe
		j := 0
		for i, x := range out {
			if i == 0 || out[j-1] != x {
				out[j] = x
				j++
			}
		}
		out = out[:j]
	}
	if op == OpBvXor {
		// x^x = 0
		var o2 []*Term
		for i := 0; i < len(out); i++ {
			if i+1 < len(out) && out[i] == out[i+1] {
				i++
				continue
			}
			o2 = append(o2, out[i])
		}
		out = o2
	}
	identity := false
	switch op {
	case OpBvAdd, OpBvOr, OpBvXor:
		identity = acc == 0
	case OpBvMul:
		identity = acc == 1
	case OpBvAnd:
		identity = acc == mask(w)
	}
	if !identity || len(out) == 0 {
		out = append([]*Term{ts.BV(acc, w)}, out...)
	}
	if len(out) == 1 {
		return out[0]
	}
	return ts.mk(&Term{op: op, sort: bvSort(w), args: out})
}

func (ts *TermStore) BvBin(op Op, a, b *Term) *Term {
	w := int(a.sort.W)
	if a.sort != b.sort {
		panic(fmt.Sprintf("BvBin %v: sort mismatch %v %v", opNames[op], a.sort, b.sort))
	}
	switch op {
	case OpBvAdd, OpBvMul, OpBvAnd, OpBvOr, OpBvXor:
		return ts.bvAC(op, w, []*Term{a, b})
	case OpBvSub:
		return ts.bvAC(OpBvAdd, w, []*Term{a, ts.BvNeg(b)})
	}
	if a.IsConst() && b.IsConst() {
		x, y := a.c, b.c
		sx, sy := sext64(x, w), sext64(y, w)
		switch op {
		case OpBvUdiv:
			if y != 0 {
				return ts.BV(x/y, w)
			}
		case OpBvUrem:
			if y != 0 {
				return ts.BV(x%y, w)
			}
		case OpBvSdiv:
			if y != 0 {
				if sy == -1 {
					return ts.BV(uint64(-sx), w)
				}
				return ts.BV(uint64(sx/sy), w)
			}
		case OpBvSrem:
			if y != 0 {
				if sy == -1 {
					return ts.BV(0, w)
				}
				return ts.BV(uint64(sx%sy), w)
			}
		case OpBvShl:
			if y >= uint64(w) {
				return ts.BV(0, w)
			}
			return ts.BV(x<<y, w)
		case OpBvLshr:
			if y >= uint64(w) {
				return ts.BV(0, w)
			}
			return ts.BV(x>>y, w)
		case OpBvAshr:
			if y >= uint64(w) {
				y = uint64(w - 1)
			}
			return ts.BV(uint64(sx>>y), w)
		}
	}
	if b.IsConst() && b.c == 0 {
		switch op {
		case OpBvShl, OpBvLshr, OpBvAshr:
			return a
		}
	}
	return ts.mk(&Term{op: op, sort: bvSort(w), args: []*Term{a, b}})
}

func (ts *TermStore) BvNeg(a *Term) *Term {
	w := int(a.sort.W)
	if a.IsConst() {
		return ts.BV(-a.c, w)
	}
	if a.op == OpBvNeg {
		return a.args[0]
	}
	// -x == (2^w-1)*x : keep as mul by constant so that sums normalise
	return ts.bvAC(OpBvMul, w, []*Term{ts.BV(mask(w), w), a})
}

func (ts *TermStore) BvNot(a *Term) *Term {
	w := int(a.sort.W)
	if a.IsConst() {
		return ts.BV(^a.c, w)
	}
	if a.op == OpBvNot {
		return a.args[0]
	}
	return ts.mk(&Term{op: OpBvNot, sort: a.sort, args: []*Term{a}})
}

func (ts *TermStore) BvCmp(op Op, a, b *Term) *Term {
	w := int(a.sort.W)
	if a.sort != b.sort {
		panic(fmt.Sprintf("BvCmp: sort mismatch %v %v", a.sort, b.sort))
	}
	if a.IsConst() && b.IsConst() {
		x, y := a.c, b.c
		sx, sy := sext64(x, w), sext64(y, w)
		switch op {
		case OpBvUlt:
			return ts.Bool(x < y)
		case OpBvUle:
			return ts.Bool(x <= y)
		case OpBvSlt:
			return ts.Bool(sx < sy)
		case OpBvSle:
			return ts.Bool(sx <= sy)
		}
	}
	if a == b {
		return ts.Bool(op == OpBvUle || op == OpBvSle)
	}
	return ts.mk(&Term{op: op, sort: sortBool, args: []*Term{a, b}})
}

func (ts *TermStore) Extract(a *Term, hi, lo int) *Term {
	if lo == 0 && hi == int(a.sort.W)-1 {
		return a
	}
	w := hi - lo + 1
	if a.IsConst() {
		return ts.BV(a.c>>uint(lo), w)
	}
	if lo == 0 && (a.op == OpZext || a.op == OpSext) {
		inner := a.args[0]
		if int(inner.sort.W) == w {
			return inner
		}
		if int(inner.sort.W) > w {
			return ts.Extract(inner, hi, 0)
		}
	}
	return ts.mk(&Term{op: OpExtract, sort: bvSort(w), args: []*Term{a}, aux: hi<<8 | lo})
}

func (ts *TermStore) Zext(a *Term, w int) *Term {
	aw := int(a.sort.W)
	if w == aw {
		return a
	}
	if w < aw {
		return ts.Extract(a, w-1, 0)
	}
	if a.IsConst() {
		return ts.BV(a.c, w)
	}
	return ts.mk(&Term{op: OpZext, sort: bvSort(w), args: []*Term{a}, aux: w - aw})
}

func (ts *TermStore) Sext(a *Term, w int) *Term {
	aw := int(a.sort.W)
	if w == aw {
		return a
	}
	if w < aw {
		return ts.Extract(a, w-1, 0)
	}
	if a.IsConst() {
		return ts.BV(uint64(sext64(a.c, aw)), w)
	}
	return ts.mk(&Term{op: OpSext, sort: bvSort(w), args: []*Term{a}, aux: w - aw})
}

// ---- reals ----

func (ts *TermStore) RAdd(xs ...*Term) *Term {
	acc := new(big.Rat)
	type ct struct {
		t *Term
		c *big.Rat
	}
	var cs []ct
	idx := map[int]int{}
	var flat func(t *Term, k *big.Rat)
	flat = func(t *Term, k *big.Rat) {
		if t.IsConst() {
			acc.Add(acc, new(big.Rat).Mul(k, t.r))
			return
		}
		if t.op == OpRAdd {
			for _, a := range t.args {
				flat(a, k)
			}
			return
		}
		if t.op == OpRMul && t.args[0].IsConst() {
			flat(t.args[1], new(big.Rat).Mul(k, t.args[0].r))
			return
		}
		if i, ok := idx[t.id]; ok {
			cs[i].c = new(big.Rat).Add(cs[i].c, k)
		} else {
			idx[t.id] = len(cs)
			cs = append(cs, ct{t, k})
		}
	}
	one := big.NewRat(1, 1)
	for _, x := range xs {
		flat(x, one)
	}
	k := xs[0].sort
	var out []*Term
	for _, e := range cs {
		if e.c.Sign() == 0 {
			continue
		}
		if e.c.Cmp(one) == 0 {
			out = append(out, e.t)
		} else {
			out = append(out, ts.mk(&Term{op: OpRMul, sort: k, args: []*Term{ts.mk(&Term{op: OpConst, sort: k, r: e.c}), e.t}}))
		}
	}
	sort.Slice(out, func(i, j int) bool { return out[i].id < out[j].id })
	if acc.Sign() != 0 || len(out) == 0 {
		out = append([]*Term{ts.mk(&Term{op: OpConst, sort: k, r: acc})}, out...)
	}
	if len(out) == 1 {
		return out[0]
	}
	return ts.mk(&Term{op: OpRAdd, sort: k, args: out})
}

func (ts *TermStore) RNeg(a *Term) *Term {
	return ts.RMul(ts.mk(&Term{op: OpConst, sort: a.sort, r: big.NewRat(-1, 1)}), a)
}

func (ts *TermStore) RSub(a, b *Term) *Term { return ts.RAdd(a, ts.RNeg(b)) }

// RMul: linear when one side is constant, otherwise an uninterpreted product
// (commutative: arguments sorted).
func (ts *TermStore) RMul(a, b *Term) *Term {
	if a.IsConst() && b.IsConst() {
		return ts.mk(&Term{op: OpConst, sort: a.sort, r: new(big.Rat).Mul(a.r, b.r)})
	}
	if b.IsConst() {
		a, b = b, a
	}
	if a.IsConst() {
		if a.r.Sign() == 0 {
			return a
		}
		if a.r.Cmp(big.NewRat(1, 1)) == 0 {
			return b
		}
		if b.op == OpRMul && b.args[0].IsConst() {
			return ts.RMul(ts.mk(&Term{op: OpConst, sort: a.sort, r: new(big.Rat).Mul(a.r, b.args[0].r)}), b.args[1])
		}
		if b.op == OpRAdd {
			parts := make([]*Term, len(b.args))
			for i, x := range b.args {
				parts[i] = ts.RMul(a, x)
			}
			return ts.RAdd(parts...)
		}
		return ts.mk(&Term{op: OpRMul, sort: b.sort, args: []*Term{a, b}})
	}
	if a.id > b.id {
		a, b = b, a
	}
	return ts.UF("fmul", a.sort, a, b)
}

func (ts *TermStore) RDiv(a, b *Term) *Term {
	if b.IsConst() && b.r.Sign() != 0 {
		inv := new(big.Rat).Inv(b.r)
		return ts.RMul(a, ts.RealRat(inv))
	}
	return ts.UF("fdiv", a.sort, a, b)
}

func (ts *TermStore) RCmp(op Op, a, b *Term) *Term {
	if a.IsConst() && b.IsConst() {
		c := a.r.Cmp(b.r)
		if op == OpRLt {
			return ts.Bool(c < 0)
		}
		return ts.Bool(c <= 0)
	}
	if a == b {
		return ts.Bool(op == OpRLe)
	}
	return ts.mk(&Term{op: op, sort: sortBool, args: []*Term{a, b}})
}

func (ts *TermStore) ToReal(a *Term) *Term {
	if a.IsConst() {
		return ts.RealRat(a.r)
	}
	return ts.mk(&Term{op: OpToReal, sort: sortReal, args: []*Term{a}})
}

// ---- FP ----

func (ts *TermStore) FBin(op Op, a, b *Term) *Term {
	if a.IsConst() && b.IsConst() {
		x, y := math.Float64frombits(a.c), math.Float64frombits(b.c)
		switch op {
		case OpFAdd:
			return ts.FP(x + y)
		case OpFSub:
			return ts.FP(x - y)
		case OpFMul:
			return ts.FP(x * y)
		case OpFDiv:
			return ts.FP(x / y)
		}
	}
	return ts.mk(&Term{op: op, sort: sortFP, args: []*Term{a, b}})
}

func (ts *TermStore) FNeg(a *Term) *Term {
	if a.IsConst() {
		return ts.FP(-math.Float64frombits(a.c))
	}
	return ts.mk(&Term{op: OpFNeg, sort: sortFP, args: []*Term{a}})
}

func (ts *TermStore) FCmp(op Op, a, b *Term) *Term {
	if a.IsConst() && b.IsConst() {
		x, y := math.Float64frombits(a.c), math.Float64frombits(b.c)
		switch op {
		case OpFLt:
			return ts.Bool(x < y)
		case OpFLe:
			return ts.Bool(x <= y)
		case OpFEq:
			return ts.Bool(x == y)
		}
	}
	return ts.mk(&Term{op: op, sort: sortBool, args: []*Term{a, b}})
}

func (ts *TermStore) FIsNaN(a *Term) *Term {
	if a.IsConst() {
		return ts.Bool(math.IsNaN(math.Float64frombits(a.c)))
	}
	return ts.mk(&Term{op: OpFIsNaN, sort: sortBool, args: []*Term{a}})
}

func (ts *TermStore) FIsInf(a *Term) *Term {
	if a.IsConst() {
		return ts.Bool(math.IsInf(math.Float64frombits(a.c), 0))
	}
	return ts.mk(&Term{op: OpFIsInf, sort: sortBool, args: []*Term{a}})
}

func (ts *TermStore) FFromBV(a *Term, signed bool) *Term {
	if a.IsConst() {
		if signed {
			return ts.FP(float64(sext64(a.c, int(a.sort.W))))
		}
		return ts.FP(float64(a.c))
	}
	op := OpFFromUBV
	if signed {
		op = OpFFromSBV
	}
	return ts.mk(&Term{op: op, sort: sortFP, args: []*Term{a}})
}

func (ts *TermStore) FToBV(a *Term, w int, signed bool) *Term {
	op := OpFToUBV
	if signed {
		op = OpFToSBV
	}
	return ts.mk(&Term{op: op, sort: bvSort(w), args: []*Term{a}, aux: w})
}

// ---- bv <-> int/real ----

func (ts *TermStore) Bv2Int(a *Term, signed bool) *Term {
	if a.IsConst() {
		if signed {
			return ts.IntC(sext64(a.c, int(a.sort.W)))
		}
		r := new(big.Rat).SetInt(new(big.Int).SetUint64(a.c))
		return ts.mk(&Term{op: OpConst, sort: sortInt, r: r})
	}
	op := OpBv2Int
	if signed {
		op = OpSBv2Int
	}
	return ts.mk(&Term{op: op, sort: sortInt, args: []*Term{a}})
}

// ---- UF ----

func (ts *TermStore) UF(name string, res Sort, args ...*Term) *Term {
	var sb strings.Builder
	sb.WriteString("(")
	for i, a := range args {
		if i > 0 {
			sb.WriteString(" ")
		}
		sb.WriteString(a.sort.String())
	}
	sb.WriteString(") ")
	sb.WriteString(res.String())
	sig := sb.String()
	if old, ok := ts.ufs[name]; ok && old != sig {
		panic(fmt.Sprintf("UF %s used with two signatures: %s / %s", name, old, sig))
	}
	ts.ufs[name] = sig
	return ts.mk(&Term{op: OpUF, sort: res, name: name, args: args})
}

// ---- printing ----

func smtName(t *Term) string {
	if t.op == OpVar {
		return "|" + t.name + "|"
	}
	return fmt.Sprintf("t%d", t.id)
}

func ratSMT(r *big.Rat, isInt bool) string {
	neg := r.Sign() < 0
	a := new(big.Rat).Abs(r)
	var s string
	if isInt || a.IsInt() {
		s = a.Num().String()
		if !isInt {
			s += ".0"
		}
	} else {
		s = fmt.Sprintf("(/ %s.0 %s.0)", a.Num().String(), a.Denom().String())
	}
	if neg {
		return "(- " + s + ")"
	}
	return s
}

func constSMT(t *Term) string {
	switch t.sort.K {
	case SBool:
		if t.c == 1 {
			return "true"
		}
		return "false"
	case SBV:
		w := int(t.sort.W)
		if w%4 == 0 {
			return fmt.Sprintf("#x%0*x", w/4, t.c)
		}
		return fmt.Sprintf("#b%0*b", w, t.c)
	case SReal:
		return ratSMT(t.r, false)
	case SInt:
		return ratSMT(t.r, true)
	case SFP:
		b := t.c
		return fmt.Sprintf("(fp #b%b #b%011b #x%013x)", b>>63, (b>>52)&0x7ff, b&((1<<52)-1))
	}
	panic("constSMT")
}

// body prints the defining expression of t using names for its arguments.
func (t *Term) body(ref func(*Term) string) string {
	switch t.op {
	case OpConst:
		return constSMT(t)
	case OpVar:
		return smtName(t)
	case OpExtract:
		return fmt.Sprintf("((_ extract %d %d) %s)", t.aux>>8, t.aux&0xff, ref(t.args[0]))
	case OpZext:
		return fmt.Sprintf("((_ zero_extend %d) %s)", t.aux, ref(t.args[0]))
	case OpSext:
		return fmt.Sprintf("((_ sign_extend %d) %s)", t.aux, ref(t.args[0]))
	case OpFFromSBV:
		return fmt.Sprintf("((_ to_fp 11 53) RNE %s)", ref(t.args[0]))
	case OpFFromUBV:
		return fmt.Sprintf("((_ to_fp_unsigned 11 53) RNE %s)", ref(t.args[0]))
	case OpFToSBV:
		return fmt.Sprintf("((_ fp.to_sbv %d) RTZ %s)", t.aux, ref(t.args[0]))
	case OpFToUBV:
		return fmt.Sprintf("((_ fp.to_ubv %d) RTZ %s)", t.aux, ref(t.args[0]))
	case OpSBv2Int:
		a := ref(t.args[0])
		w := int(t.args[0].sort.W)
		pow := new(big.Int).Lsh(big.NewInt(1), uint(w))
		return fmt.Sprintf("(ite (bvslt %s %s) (- (bv2nat %s) %s) (bv2nat %s))", a, constSMT(&Term{sort: bvSort(w), c: 0}), a, pow.String(), a)
	case OpUF:
		var sb strings.Builder
		sb.WriteString("(|" + t.name + "|")
		for _, a := range t.args {
			sb.WriteString(" " + ref(a))
		}
		sb.WriteString(")")
		return sb.String()
	}
	name, ok := opNames[t.op]
	if !ok {
		panic(fmt.Sprintf("no SMT name for op %d", t.op))
	}
	var sb strings.Builder
	sb.WriteString("(" + name)
	for _, a := range t.args {
		sb.WriteString(" " + ref(a))
	}
	sb.WriteString(")")
	return sb.String()
}

// String renders a term fully inlined (debugging / evidence samples).
func (t *Term) String() string {
	var ref func(*Term) string
	depth := 0
	ref = func(a *Term) string {
		depth++
		defer func() { depth-- }()
		if depth > 40 {
			return "…"
		}
		return a.body(ref)
	}
	return t.body(ref)
}
