package interp

// If-conversion of pure acyclic regions: when a branch on a symbolic
// condition leads into side-effect-free code (short-circuit && / ||, small
// diamonds such as `if c > max { max = c }`), the region is evaluated once
// with guards and its joins become ite terms, instead of forking per branch.
// The region's exits (at most a few blocks) are then decided with one fork
// each. This changes cost only, not meaning: every instruction evaluated is
// pure, and evaluation is abandoned (falling back to plain forking) as soon as
// anything that could fault or have an effect is met under a non-false guard.

import (
	"go/token"
	"go/types"

	"golang.org/x/tools/go/ssa"
)

const (
	ifconvMaxBlocks = 24
	ifconvMaxInstrs = 240
)

type specAbort struct{}

func staticallyPure(instr ssa.Instruction) bool {
	switch in := instr.(type) {
	case *ssa.BinOp, *ssa.ChangeType, *ssa.ChangeInterface, *ssa.MakeInterface, *ssa.Field, *ssa.FieldAddr,
		*ssa.Extract, *ssa.Phi, *ssa.DebugRef, *ssa.IndexAddr, *ssa.Index, *ssa.MakeClosure, *ssa.Lookup:
		return true
	case *ssa.Convert:
		return true
	case *ssa.UnOp:
		return in.Op != token.ARROW
	case *ssa.TypeAssert:
		return in.CommaOk
	case *ssa.Call:
		if b, ok := in.Call.Value.(*ssa.Builtin); ok {
			switch b.Name() {
			case "len", "cap", "min", "max":
				return true
			}
		}
		return false
	case *ssa.If, *ssa.Jump:
		return true
	}
	return false
}

func blockPure(b *ssa.BasicBlock) bool {
	if len(b.Instrs) == 0 {
		return false
	}
	switch b.Instrs[len(b.Instrs)-1].(type) {
	case *ssa.If, *ssa.Jump:
	default:
		return false
	}
	for _, in := range b.Instrs {
		if !staticallyPure(in) {
			return false
		}
	}
	return true
}

type ifRegion struct {
	blocks []*ssa.BasicBlock // topological order
	inReg  map[*ssa.BasicBlock]bool
	exits  []*ssa.BasicBlock
}

// regionCache memoises region discovery per If instruction (per worker).
func (i *interpreter) ifRegion(instr *ssa.If) *ifRegion {
	if r, ok := i.regions[instr]; ok {
		return r
	}
	r := findRegion(instr.Block())
	if i.regions == nil {
		i.regions = map[*ssa.If]*ifRegion{}
	}
	i.regions[instr] = r
	return r
}

func findRegion(B *ssa.BasicBlock) *ifRegion {
	// candidate set: pure blocks reachable from B's successors whose
	// predecessors all lie in the set or are B
	cand := map[*ssa.BasicBlock]bool{}
	var order []*ssa.BasicBlock
	var visit func(b *ssa.BasicBlock)
	visit = func(b *ssa.BasicBlock) {
		if cand[b] || b == B || !blockPure(b) || len(cand) >= ifconvMaxBlocks {
			return
		}
		cand[b] = true
		order = append(order, b)
		for _, s := range b.Succs {
			visit(s)
		}
	}
	for _, s := range B.Succs {
		visit(s)
	}
	// prune until closed under "all preds inside"
	for changed := true; changed; {
		changed = false
		for b := range cand {
			for _, p := range b.Preds {
				if p != B && !cand[p] {
					delete(cand, b)
					changed = true
					break
				}
			}
		}
	}
	if len(cand) == 0 {
		return nil
	}
	// must be reachable from B through candidates only, and acyclic: Kahn
	indeg := map[*ssa.BasicBlock]int{}
	for b := range cand {
		for _, p := range b.Preds {
			if cand[p] {
				indeg[b]++
			}
		}
	}
	var topo []*ssa.BasicBlock
	var ready []*ssa.BasicBlock
	for _, b := range order {
		if cand[b] && indeg[b] == 0 {
			ready = append(ready, b)
		}
	}
	for len(ready) > 0 {
		b := ready[0]
		ready = ready[1:]
		topo = append(topo, b)
		for _, s := range b.Succs {
			if cand[s] {
				indeg[s]--
				if indeg[s] == 0 {
					ready = append(ready, s)
				}
			}
		}
	}
	if len(topo) != len(cand) {
		return nil // cycle
	}
	// a back edge to B from inside the region would be a loop: B is never in cand, so edges to B are exits
	r := &ifRegion{blocks: topo, inReg: cand}
	n := 0
	seen := map[*ssa.BasicBlock]bool{}
	addExit := func(b *ssa.BasicBlock) {
		if !cand[b] && !seen[b] {
			seen[b] = true
			r.exits = append(r.exits, b)
		}
	}
	for _, s := range B.Succs {
		addExit(s)
	}
	for _, b := range topo {
		n += len(b.Instrs)
		for _, s := range b.Succs {
			addExit(s)
		}
	}
	if n > ifconvMaxInstrs || len(r.exits) > 4 || len(r.exits) == 0 {
		return nil
	}
	return r
}

type specEdge struct {
	from  *ssa.BasicBlock
	guard *Term
}

// tryIfConvert evaluates the pure region below a symbolic If. On success it
// sets fr.block/fr.prevBlock to the chosen exit with its phis assigned and
// returns true.
func (fr *frame) tryIfConvert(instr *ssa.If, cond *Term) (ok bool) {
	ps := fr.i.ps
	if ps.noIfConv {
		return false
	}
	r := fr.i.ifRegion(instr)
	if r == nil {
		return false
	}
	ts := ps.ts
	B := instr.Block()
	incoming := map[*ssa.BasicBlock][]specEdge{}
	addEdge := func(from, to *ssa.BasicBlock, g *Term) {
		if g == ts.False {
			return
		}
		incoming[to] = append(incoming[to], specEdge{from, g})
	}
	addEdge(B, B.Succs[0], cond)
	if B.Succs[1] == B.Succs[0] {
		return false
	}
	addEdge(B, B.Succs[1], ts.Not(cond))

	defer func() {
		if rec := recover(); rec != nil {
			if _, isAbort := rec.(specAbort); isAbort {
				ok = false
				return
			}
			panic(rec)
		}
	}()
	savedSteps := ps.steps

	assignPhis := func(b *ssa.BasicBlock, edges []specEdge) {
		var phis []*ssa.Phi
		for _, in := range b.Instrs {
			if phi, isPhi := in.(*ssa.Phi); isPhi {
				phis = append(phis, phi)
			} else {
				break
			}
		}
		if len(phis) == 0 {
			return
		}
		vals := make([]value, len(phis))
		for k, phi := range phis {
			var acc value
			for j := len(edges) - 1; j >= 0; j-- {
				e := edges[j]
				idx := -1
				for pi, p := range b.Preds {
					if p == e.from {
						idx = pi
						break
					}
				}
				if idx < 0 {
					panic(specAbort{})
				}
				v := fr.get(phi.Edges[idx])
				if acc == nil {
					acc = v
				} else {
					acc = ps.iteValue(e.guard, v, acc)
				}
			}
			vals[k] = acc
		}
		for k, phi := range phis {
			fr.env[phi] = vals[k]
		}
	}

	for _, b := range r.blocks {
		edges := incoming[b]
		if len(edges) == 0 {
			continue // unreachable under this condition
		}
		gs := make([]*Term, len(edges))
		for k, e := range edges {
			gs[k] = e.guard
		}
		guard := ts.Or(gs...)
		assignPhis(b, edges)
		for _, in := range b.Instrs {
			switch in := in.(type) {
			case *ssa.Phi, *ssa.DebugRef:
			case *ssa.If:
				switch c := fr.get(in.Cond).(type) {
				case bool:
					if c {
						addEdge(b, b.Succs[0], guard)
					} else {
						addEdge(b, b.Succs[1], guard)
					}
				case sym:
					addEdge(b, b.Succs[0], ts.And(guard, c.t))
					addEdge(b, b.Succs[1], ts.And(guard, ts.Not(c.t)))
				default:
					panic(specAbort{})
				}
			case *ssa.Jump:
				addEdge(b, b.Succs[0], guard)
			default:
				fr.specInstr(in)
			}
		}
	}
	ps.steps = savedSteps + 1

	// choose the exit
	var live []*ssa.BasicBlock
	for _, x := range r.exits {
		if len(incoming[x]) > 0 {
			live = append(live, x)
		}
	}
	if len(live) == 0 {
		return false
	}
	chosen := live[len(live)-1]
	for _, x := range live[:len(live)-1] {
		gs := make([]*Term, 0, len(incoming[x]))
		for _, e := range incoming[x] {
			gs = append(gs, e.guard)
		}
		ps.lastSite = fr.fn.String()
		if ps.decide(ts.Or(gs...)) {
			chosen = x
			break
		}
	}
	edges := incoming[chosen]
	assignPhis(chosen, edges)
	fr.prevBlock, fr.block = edges[0].from, chosen
	fr.skipPhis = true
	return true
}

// iteValue merges two values under a guard.
func (ps *pathState) iteValue(g *Term, a, b value) value {
	ka, kb := kindOfValue(a), kindOfValue(b)
	if ka != types.Invalid && ka == kb && ka != types.Float32 {
		fs := floatSortOf(a, b)
		ta, tb := ps.termOf(a, fs), ps.termOf(b, fs)
		if ta.sort != tb.sort {
			panic(specAbort{})
		}
		return mkval(ka, ps.ts.Ite(g, ta, tb))
	}
	// identical non-scalars
	switch x := a.(type) {
	case *value:
		if y, ok := b.(*value); ok && x == y {
			return a
		}
	case string:
		if y, ok := b.(string); ok && x == y {
			return a
		}
	case *omap:
		if y, ok := b.(*omap); ok && x == y {
			return a
		}
	case *channel:
		if y, ok := b.(*channel); ok && x == y {
			return a
		}
	}
	panic(specAbort{})
}

// specInstr evaluates one pure instruction speculatively; anything that could
// fault aborts the speculation.
func (fr *frame) specInstr(instr ssa.Instruction) {
	ps := fr.i.ps
	switch in := instr.(type) {
	case *ssa.BinOp:
		if in.Op == token.QUO || in.Op == token.REM {
			y := fr.get(in.Y)
			switch y.(type) {
			case float64, float32:
			case sym:
				if k := kindOfValue(y); k != types.Float64 {
					panic(specAbort{})
				}
			default:
				if asInt64(y) == 0 {
					panic(specAbort{})
				}
			}
		}
		if in.Op == token.SHL || in.Op == token.SHR {
			if _, isS := fr.get(in.Y).(sym); isS {
				if _, signed := kindBits(kindOfValue(fr.get(in.Y))); signed {
					panic(specAbort{})
				}
			} else if asInt64(fr.get(in.Y)) < 0 {
				panic(specAbort{})
			}
		}
		if in.Op == token.EQL || in.Op == token.NEQ {
			// comparisons that would need a decision (interfaces, structs with symbolic parts) are not speculated
			x, y := fr.get(in.X), fr.get(in.Y)
			if !specComparable(x) || !specComparable(y) {
				panic(specAbort{})
			}
		}
	case *ssa.UnOp:
		if in.Op == token.MUL {
			switch p := fr.get(in.X).(type) {
			case *value:
				if p == nil {
					panic(specAbort{})
				}
			case *idxptr:
			default:
				panic(specAbort{})
			}
		}
	case *ssa.FieldAddr:
		p, ok := fr.get(in.X).(*value)
		if !ok || p == nil {
			panic(specAbort{})
		}
	case *ssa.IndexAddr:
		if _, isS := fr.get(in.Index).(sym); isS {
			panic(specAbort{})
		}
		var n int
		switch x := fr.get(in.X).(type) {
		case []value:
			n = len(x)
		case *value:
			if x == nil {
				panic(specAbort{})
			}
			n = len((*x).(array))
		}
		if i := asInt64(fr.get(in.Index)); i < 0 || i >= int64(n) {
			panic(specAbort{})
		}
	case *ssa.Index:
		if _, isS := fr.get(in.Index).(sym); isS {
			panic(specAbort{})
		}
		n := 0
		switch x := fr.get(in.X).(type) {
		case array:
			n = len(x)
		case string:
			n = len(x)
		case *symstr:
			n = len(x.e)
		}
		if i := asInt64(fr.get(in.Index)); i < 0 || i >= int64(n) {
			panic(specAbort{})
		}
	case *ssa.Lookup:
		k := fr.get(in.Index)
		if !fastKey(k) {
			panic(specAbort{})
		}
		if m, _ := fr.get(in.X).(*omap); m != nil && len(m.syms) > 0 {
			panic(specAbort{})
		}
	case *ssa.Convert:
		// string conversions of symbolic runes carry ASCII obligations
		if _, isS := fr.get(in.X).(sym); isS {
			if b, ok := in.Type().Underlying().(*types.Basic); !ok || b.Kind() == types.String {
				panic(specAbort{})
			}
		}
		if _, isSS := fr.get(in.X).(*symstr); isSS {
			panic(specAbort{})
		}
	}
	before := len(ps.trace) + ps.pos
	visitInstr(fr, instr)
	_ = before
}

func specComparable(v value) bool {
	switch v.(type) {
	case bool, int, int8, int16, int32, int64, uint, uint8, uint16, uint32, uint64, uintptr, float64, string, sym, *symstr, *value, *channel:
		return true
	case *omap, []value, *ssa.Function, *closure, *nativeFn:
		return true // nil comparisons
	}
	return false
}
