package interp

// One persistent SMT solver process (z3 -in) per worker.

import (
	"bufio"
	"fmt"
	"io"
	"math"
	"math/big"
	"os"
	"os/exec"
	"strconv"
	"strings"
	"time"
)

type SolverStats struct {
	Sat, Unsat, Unknown int
	Errors              int
	Time                time.Duration
	Queries             int
}

var slowQueryMs = func() int { n, _ := strconv.Atoi(os.Getenv("GOSX_SLOW_MS")); return n }()

type Solver struct {
	ts      *TermStore
	cmd     *exec.Cmd
	in      io.WriteCloser
	out     *bufio.Reader
	defined map[int]bool
	ufdecl  map[string]bool
	Stats   SolverStats
	argv    []string
	timeout int // ms per query
	buf     strings.Builder
	Log     io.Writer
	dead    bool
	lastPushed bool
}

func NewSolver(ts *TermStore, argv []string, timeoutMs int) (*Solver, error) {
	s := &Solver{ts: ts, argv: argv, timeout: timeoutMs}
	if err := s.start(); err != nil {
		return nil, err
	}
	return s, nil
}

func (s *Solver) start() error {
	s.cmd = exec.Command(s.argv[0], s.argv[1:]...)
	in, err := s.cmd.StdinPipe()
	if err != nil {
		return err
	}
	out, err := s.cmd.StdoutPipe()
	if err != nil {
		return err
	}
	s.cmd.Stderr = nil
	if err := s.cmd.Start(); err != nil {
		return err
	}
	s.in = in
	s.out = bufio.NewReaderSize(out, 1<<16)
	s.dead = false
	s.resetState()
	return nil
}

func (s *Solver) resetState() {
	s.defined = map[int]bool{}
	s.ufdecl = map[string]bool{}
	s.send("(set-option :print-success false)")
	if strings.Contains(s.argv[0], "z3") {
		s.send(fmt.Sprintf("(set-option :timeout %d)", s.timeout))
	}
}

func (s *Solver) Close() {
	if s.cmd != nil && s.cmd.Process != nil {
		s.in.Close()
		s.cmd.Process.Kill()
		s.cmd.Wait()
	}
}

func (s *Solver) restart() {
	s.Close()
	if err := s.start(); err != nil {
		panic(fmt.Sprintf("solver restart failed: %v", err))
	}
}

func (s *Solver) send(line string) {
	if s.Log != nil {
		fmt.Fprintln(s.Log, line)
	}
	if _, err := io.WriteString(s.in, line+"\n"); err != nil {
		s.dead = true
	}
}

// Reset forgets all assertions and definitions (start of a path).
func (s *Solver) Reset() {
	if s.dead {
		s.restart()
		return
	}
	s.send("(reset)")
	s.resetState()
}

// define makes sure t and all its sub-terms have names at the current level
// and returns the name of t.
func (s *Solver) define(t *Term) string {
	if t.op == OpConst {
		return constSMT(t)
	}
	if s.defined[t.id] {
		return smtName(t)
	}
	// iterative post-order
	type fr struct {
		t *Term
		i int
	}
	stack := []fr{{t, 0}}
	for len(stack) > 0 {
		top := &stack[len(stack)-1]
		if top.i < len(top.t.args) {
			a := top.t.args[top.i]
			top.i++
			if a.op != OpConst && !s.defined[a.id] {
				stack = append(stack, fr{a, 0})
			}
			continue
		}
		u := top.t
		stack = stack[:len(stack)-1]
		if s.defined[u.id] {
			continue
		}
		s.defined[u.id] = true
		if u.op == OpVar {
			s.send(fmt.Sprintf("(declare-const %s %s)", smtName(u), u.sort))
			continue
		}
		if u.op == OpUF && !s.ufdecl[u.name] {
			s.ufdecl[u.name] = true
			s.send(fmt.Sprintf("(declare-fun |%s| %s)", u.name, s.ts.ufs[u.name]))
		}
		ref := func(a *Term) string {
			if a.op == OpConst {
				return constSMT(a)
			}
			return smtName(a)
		}
		s.send(fmt.Sprintf("(define-fun %s () %s %s)", smtName(u), u.sort, u.body(ref)))
	}
	return smtName(t)
}

func (s *Solver) Assert(t *Term) {
	if t == s.ts.True {
		return
	}
	n := s.define(t)
	s.send("(assert " + n + ")")
}

func (s *Solver) readLine() (string, error) {
	for {
		line, err := s.out.ReadString('\n')
		if err != nil {
			s.dead = true
			return "", err
		}
		line = strings.TrimSpace(line)
		if line == "" {
			continue
		}
		return line, nil
	}
}

func (s *Solver) readSexp() (string, error) {
	var sb strings.Builder
	depth := 0
	started := false
	for {
		line, err := s.out.ReadString('\n')
		if err != nil {
			s.dead = true
			return "", err
		}
		for _, ch := range line {
			if ch == '(' {
				depth++
				started = true
			} else if ch == ')' {
				depth--
			}
		}
		sb.WriteString(line)
		if started && depth <= 0 {
			return sb.String(), nil
		}
		if !started && strings.TrimSpace(line) != "" {
			return sb.String(), nil
		}
	}
}

// Check decides satisfiability of the current assertions plus extra (may be
// nil). Returns "sat", "unsat" or "unknown" (timeouts, errors).
func (s *Solver) Check(extra *Term) string {
	if extra != nil && extra.IsConst() {
		if extra.c == 0 {
			return "unsat"
		}
		extra = nil
	}
	t0 := time.Now()
	defer func() {
		d := time.Since(t0)
		s.Stats.Time += d
		s.Stats.Queries++
		if slowQueryMs > 0 && d > time.Duration(slowQueryMs)*time.Millisecond {
			x := "<pc only>"
			if extra != nil {
				x = extra.String()
				if len(x) > 600 {
					x = x[:600] + "..."
				}
			}
			fmt.Fprintf(os.Stderr, "SLOWQUERY %v: %s\n", d.Round(time.Millisecond), x)
		}
	}()
	if extra != nil {
		n := s.define(extra)
		s.send("(push 1)")
		s.send("(assert " + n + ")")
	}
	s.send("(check-sat)")
	res, err := s.readLine()
	if err != nil || strings.HasPrefix(res, "(error") || (res != "sat" && res != "unsat" && res != "unknown") {
		s.Stats.Errors++
		if s.Log != nil {
			fmt.Fprintf(s.Log, "; solver said: %q err=%v\n", res, err)
		}
		res = "unknown"
		if err != nil {
			s.dead = true
		}
	}
	s.lastPushed = extra != nil
	switch res {
	case "sat":
		s.Stats.Sat++
	case "unsat":
		s.Stats.Unsat++
	default:
		s.Stats.Unknown++
	}
	return res
}

// Pop undoes the push of the last Check(extra != nil). Must be called after
// Check (and after Model, if a model is wanted).
func (s *Solver) Pop() {
	if s.lastPushed {
		s.send("(pop 1)")
		s.lastPushed = false
	}
}

// Model returns values for the given variables after a "sat" answer (before Pop).
func (s *Solver) Model(vars []*Term) (map[string]ModelVal, error) {
	res := map[string]ModelVal{}
	if len(vars) == 0 {
		return res, nil
	}
	var sb strings.Builder
	sb.WriteString("(get-value (")
	n := 0
	for _, v := range vars {
		if !s.defined[v.id] {
			continue // never mentioned: unconstrained
		}
		sb.WriteString(smtName(v) + " ")
		n++
	}
	sb.WriteString("))")
	if n == 0 {
		return res, nil
	}
	s.send(sb.String())
	txt, err := s.readSexp()
	if err != nil {
		return nil, err
	}
	if strings.Contains(txt, "(error") {
		return nil, fmt.Errorf("solver error: %s", txt)
	}
	sx, _, err := parseSexp(txt, 0)
	if err != nil {
		return nil, fmt.Errorf("parse model %q: %v", txt, err)
	}
	for _, pair := range sx.list {
		if len(pair.list) != 2 {
			continue
		}
		name := strings.Trim(pair.list[0].atom, "|")
		mv, err := parseModelVal(pair.list[1])
		if err != nil {
			return nil, fmt.Errorf("model value for %s: %v", name, err)
		}
		res[name] = mv
	}
	return res, nil
}

type ModelVal struct {
	Kind SortKind
	U    uint64   // bv / bool / fp bits
	R    *big.Rat // real / int
}

func (m ModelVal) String() string {
	switch m.Kind {
	case SBool:
		return fmt.Sprint(m.U == 1)
	case SBV:
		return fmt.Sprintf("%d", m.U)
	case SFP:
		return fmt.Sprint(math.Float64frombits(m.U))
	default:
		return m.R.RatString()
	}
}

type sexp struct {
	atom string
	list []*sexp
	isL  bool
}

func parseSexp(s string, i int) (*sexp, int, error) {
	for i < len(s) && (s[i] == ' ' || s[i] == '\n' || s[i] == '\t' || s[i] == '\r') {
		i++
	}
	if i >= len(s) {
		return nil, i, fmt.Errorf("eof")
	}
	if s[i] == '(' {
		i++
		n := &sexp{isL: true}
		for {
			for i < len(s) && (s[i] == ' ' || s[i] == '\n' || s[i] == '\t' || s[i] == '\r') {
				i++
			}
			if i >= len(s) {
				return nil, i, fmt.Errorf("eof in list")
			}
			if s[i] == ')' {
				return n, i + 1, nil
			}
			c, j, err := parseSexp(s, i)
			if err != nil {
				return nil, j, err
			}
			n.list = append(n.list, c)
			i = j
		}
	}
	j := i
	if s[i] == '|' {
		j = i + 1
		for j < len(s) && s[j] != '|' {
			j++
		}
		j++
	} else {
		for j < len(s) && s[j] != ' ' && s[j] != '\n' && s[j] != ')' && s[j] != '(' && s[j] != '\t' && s[j] != '\r' {
			j++
		}
	}
	return &sexp{atom: s[i:j]}, j, nil
}

func parseModelVal(x *sexp) (ModelVal, error) {
	if !x.isL {
		a := x.atom
		switch {
		case a == "true":
			return ModelVal{Kind: SBool, U: 1}, nil
		case a == "false":
			return ModelVal{Kind: SBool, U: 0}, nil
		case strings.HasPrefix(a, "#x"):
			u, err := strconv.ParseUint(a[2:], 16, 64)
			return ModelVal{Kind: SBV, U: u}, err
		case strings.HasPrefix(a, "#b"):
			u, err := strconv.ParseUint(a[2:], 2, 64)
			return ModelVal{Kind: SBV, U: u}, err
		default:
			r, ok := new(big.Rat).SetString(a)
			if !ok {
				return ModelVal{}, fmt.Errorf("bad numeral %q", a)
			}
			return ModelVal{Kind: SReal, R: r}, nil
		}
	}
	if len(x.list) == 0 {
		return ModelVal{}, fmt.Errorf("empty list")
	}
	head := x.list[0]
	if !head.isL {
		switch head.atom {
		case "-":
			if len(x.list) == 2 {
				v, err := parseModelVal(x.list[1])
				if err != nil {
					return v, err
				}
				v.R = new(big.Rat).Neg(v.R)
				return v, nil
			}
		case "/":
			a, err := parseModelVal(x.list[1])
			if err != nil {
				return a, err
			}
			b, err := parseModelVal(x.list[2])
			if err != nil {
				return b, err
			}
			return ModelVal{Kind: SReal, R: new(big.Rat).Quo(a.R, b.R)}, nil
		case "fp":
			sg, _ := parseModelVal(x.list[1])
			ex, _ := parseModelVal(x.list[2])
			mn, _ := parseModelVal(x.list[3])
			return ModelVal{Kind: SFP, U: sg.U<<63 | ex.U<<52 | mn.U}, nil
		case "_":
			switch x.list[1].atom {
			case "+zero":
				return ModelVal{Kind: SFP, U: 0}, nil
			case "-zero":
				return ModelVal{Kind: SFP, U: 1 << 63}, nil
			case "+oo":
				return ModelVal{Kind: SFP, U: math.Float64bits(math.Inf(1))}, nil
			case "-oo":
				return ModelVal{Kind: SFP, U: math.Float64bits(math.Inf(-1))}, nil
			case "NaN":
				return ModelVal{Kind: SFP, U: math.Float64bits(math.NaN())}, nil
			}
			if strings.HasPrefix(x.list[1].atom, "bv") {
				u, err := strconv.ParseUint(x.list[1].atom[2:], 10, 64)
				return ModelVal{Kind: SBV, U: u}, err
			}
		}
	}
	return ModelVal{}, fmt.Errorf("unrecognised value")
}

