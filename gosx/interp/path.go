package interp

// Path state, decisions, and the interface between the interpreter and the
// solver. One pathState per explored path; stateless (replay-based) forking.

import (
	"fmt"
	"go/token"
	"math"
	"math/big"
	"sort"
	"strings"
)

type Decision struct {
	Kind byte  `json:"k"` // 'b' branch, 'c' choose, 'v' concretise, 's' schedule, 'm' map order
	Val  int64 `json:"v"`
	N    int   `json:"n,omitempty"` // number of alternatives for 'c','s','m'
}

type PathStatus int

const (
	StOK PathStatus = iota
	StAssumeFail
	StViolation   // sxAssert failed
	StPanic       // target panic reached top of a goroutine
	StExit        // os.Exit reached
	StHang        // unwinding bound exceeded
	StDeadlock    // all goroutines blocked
	StRace        // happens-before data race
	StUnsupported // engine limitation
	StUnknown     // solver unknown on a property-relevant query
	StEngineError // interpreter crash
	StInfeasible  // PC became unsat (solver disagreement)
	StLeak        // main returned while goroutines are blocked forever
)

var statusNames = map[PathStatus]string{
	StOK: "ok", StAssumeFail: "assume-fail", StViolation: "assert", StPanic: "panic", StExit: "exit",
	StHang: "hang", StDeadlock: "deadlock", StRace: "race", StUnsupported: "unsupported",
	StUnknown: "unknown", StEngineError: "engine-error", StInfeasible: "infeasible", StLeak: "goroutine-leak",
}

func (s PathStatus) String() string { return statusNames[s] }

// pathEnd is the Go panic value used to unwind the interpreter when a path
// terminates for any reason other than a normal return of the harness.
type pathEnd struct {
	st  PathStatus
	msg string
}

type killG struct{} // unwinds parked goroutines of a finished path

type unsupportedErr struct{ msg string }

func unsupported(msg string) unsupportedErr { return unsupportedErr{msg} }

type InputRec struct {
	Name string `json:"name"`
	Kind string `json:"kind"` // int, len, f64, u64, byte, bool, choose, rand, ...
	term *Term
	Val  string `json:"val,omitempty"` // model value (filled for reports)
}

type pathState struct {
	w       *Worker
	ts      *TermStore
	prefix  []Decision
	pos     int
	trace   []Decision
	pc      []*Term
	inputs  []*InputRec
	inNames map[string]int
	observe []string
	reached map[string]bool
	known   map[string]bool // known-finding classes hit on this path
	steps   int64
	depth   int
	forks   [][]Decision // alternatives to push
	unkFeas int
	stubs   map[string]bool
	funcs   map[string]bool
	sched   *scheduler
	side    map[interface{}]interface{} // side tables (sync primitives etc.)
	concrete map[string]ModelVal        // concrete replay mode: input values by name
	isConcrete bool
	lastSite string
	maxLoop  int64
	nondetMap bool
	nondetMapAll bool // every permutation instead of rotations + reverse
	floatMode int // int->float conversions: 0 = real encoding, 1 = FP
	memo     map[string]value
	curPos   token.Pos
	maxSteps int64
	maxDepth int
	nrand    int
	randRanges []value
	randVars   []*Term
	probMode   bool
	seededRand bool // draws are uninterpreted functions of the generator state (see genDraw)
	lastSeed    value
	lastSeedSym bool
	seeded      bool
	out        []value // text written to the in-memory output sink
	numCPUSym bool
	numericNamesExcluded bool
	initMode bool
	notes    []string
	nAsserts int
	noIfConv bool
	stubTaxHash bool
	taxHashBits int
	decided  map[int]bool // branch conditions already decided on this path (term id -> outcome)
}

const (
	defaultMaxSteps = 20_000_000
	defaultMaxDepth = 400
)

func (ps *pathState) addPC(t *Term) {
	if t == ps.ts.True {
		return
	}
	ps.pc = append(ps.pc, t)
	if !ps.isConcrete {
		ps.w.solver.Assert(t)
	}
}

// decide resolves a symbolic boolean into a concrete branch outcome, forking
// when both outcomes are feasible.
func (ps *pathState) decide(c *Term) bool {
	if c.IsConst() {
		return c.c == 1
	}
	// a condition already decided on this path (same hash-consed term, or its
	// negation) is implied by the PC: no query, no decision
	if v, ok := ps.decided[c.id]; ok {
		return v
	}
	if c.op == OpNot {
		if v, ok := ps.decided[c.args[0].id]; ok {
			return !v
		}
	}
	if ps.pos < len(ps.prefix) {
		d := ps.prefix[ps.pos]
		if d.Kind != 'b' {
			panic(pathEnd{StEngineError, fmt.Sprintf("replay diverged: want branch, prefix has %c at %d (%s)", d.Kind, ps.pos, ps.lastSite)})
		}
		ps.pos++
		ps.trace = append(ps.trace, d)
		if d.Val == 1 {
			ps.addPC(c)
			ps.decided[c.id] = true
			return true
		}
		ps.addPC(ps.ts.Not(c))
		ps.decided[c.id] = false
		return false
	}
	ps.pos++
	s := ps.w.solver
	rT := s.Check(c)
	s.Pop()
	var rF string
	if rT == "unsat" {
		rF = "sat" // PC is satisfiable by construction
	} else {
		rF = s.Check(ps.ts.Not(c))
		s.Pop()
	}
	if rT == "unknown" {
		ps.unkFeas++
	}
	if rF == "unknown" {
		ps.unkFeas++
	}
	okT, okF := rT != "unsat", rF != "unsat"
	switch {
	case okT && okF:
		alt := append(append([]Decision(nil), ps.trace...), Decision{Kind: 'b', Val: 0})
		ps.forks = append(ps.forks, alt)
		ps.trace = append(ps.trace, Decision{Kind: 'b', Val: 1})
		ps.addPC(c)
		ps.decided[c.id] = true
		return true
	case okT:
		ps.trace = append(ps.trace, Decision{Kind: 'b', Val: 1})
		ps.addPC(c)
		ps.decided[c.id] = true
		return true
	case okF:
		ps.trace = append(ps.trace, Decision{Kind: 'b', Val: 0})
		ps.addPC(ps.ts.Not(c))
		ps.decided[c.id] = false
		return false
	}
	panic(pathEnd{StInfeasible, "both branch outcomes unsat"})
}

// choose is an explicit k-way split (sxChoose, scheduling, map order).
func (ps *pathState) choose(kind byte, k int) int {
	if k <= 0 {
		panic(pathEnd{StEngineError, "choose with k<=0"})
	}
	if k == 1 {
		return 0
	}
	if ps.pos < len(ps.prefix) {
		d := ps.prefix[ps.pos]
		if d.Kind != kind {
			panic(pathEnd{StEngineError, fmt.Sprintf("replay diverged: want %c, prefix has %c at %d", kind, d.Kind, ps.pos)})
		}
		ps.pos++
		ps.trace = append(ps.trace, d)
		return int(d.Val)
	}
	ps.pos++
	for i := k - 1; i >= 1; i-- {
		alt := append(append([]Decision(nil), ps.trace...), Decision{Kind: kind, Val: int64(i), N: k})
		ps.forks = append(ps.forks, alt)
	}
	ps.trace = append(ps.trace, Decision{Kind: kind, Val: 0, N: k})
	return 0
}

const concretiseCap = 64

// concretise returns a concrete value for bit-vector term t, forking over all
// feasible values (cap concretiseCap).
func (ps *pathState) concretise(t *Term, why string) uint64 {
	if t.IsConst() {
		return t.c
	}
	w := int(t.sort.W)
	for n := 0; ; n++ {
		if n > concretiseCap {
			panic(pathEnd{StUnsupported, "concretisation cap exceeded: " + why})
		}
		if ps.pos < len(ps.prefix) {
			d := ps.prefix[ps.pos]
			if d.Kind != 'v' {
				panic(pathEnd{StEngineError, fmt.Sprintf("replay diverged: want concretise, prefix has %c at %d", d.Kind, ps.pos)})
			}
			ps.pos++
			ps.trace = append(ps.trace, d)
			v := ps.ts.BV(uint64(d.Val), w)
			if d.N == 1 {
				ps.addPC(ps.ts.Eq(t, v))
				return v.c
			}
			ps.addPC(ps.ts.Not(ps.ts.Eq(t, v)))
			continue
		}
		ps.pos++
		s := ps.w.solver
		s.define(t)
		r := s.Check(nil)
		if r != "sat" {
			s.Pop()
			if r == "unsat" {
				panic(pathEnd{StInfeasible, "concretise: PC unsat"})
			}
			panic(pathEnd{StUnknown, "concretise: solver unknown (" + why + ")"})
		}
		// need value of t: name it through a fresh var? use get-value on the term name
		val, err := s.evalBV(t)
		s.Pop()
		if err != nil {
			panic(pathEnd{StUnknown, "concretise: " + err.Error()})
		}
		v := ps.ts.BV(val, w)
		// is another value possible?
		r2 := s.Check(ps.ts.Not(ps.ts.Eq(t, v)))
		s.Pop()
		if r2 != "unsat" {
			alt := append(append([]Decision(nil), ps.trace...), Decision{Kind: 'v', Val: int64(val), N: 0})
			ps.forks = append(ps.forks, alt)
		}
		ps.trace = append(ps.trace, Decision{Kind: 'v', Val: int64(val), N: 1})
		ps.addPC(ps.ts.Eq(t, v))
		return val
	}
}

func (s *Solver) evalBV(t *Term) (uint64, error) {
	n := s.define(t)
	s.send("(get-value (" + n + "))")
	txt, err := s.readSexp()
	if err != nil {
		return 0, err
	}
	if strings.Contains(txt, "(error") {
		return 0, fmt.Errorf("solver error: %s", txt)
	}
	sx, _, err := parseSexp(txt, 0)
	if err != nil || len(sx.list) != 1 || len(sx.list[0].list) != 2 {
		return 0, fmt.Errorf("bad get-value reply %q", txt)
	}
	mv, err := parseModelVal(sx.list[0].list[1])
	if err != nil {
		return 0, err
	}
	return mv.U, nil
}

// mustHold checks PC => c without forking; returns true if valid.
func (ps *pathState) mustHold(c *Term) bool {
	if c.IsConst() {
		return c.c == 1
	}
	if ps.isConcrete {
		panic(pathEnd{StEngineError, "symbolic term in concrete mode"})
	}
	r := ps.w.solver.Check(ps.ts.Not(c))
	ps.w.solver.Pop()
	return r == "unsat"
}

// newInput registers a symbolic input.
func (ps *pathState) newInput(name, kind string, s Sort) *Term {
	if n, ok := ps.inNames[name]; ok {
		ps.inNames[name] = n + 1
		name = fmt.Sprintf("%s#%d", name, n+1)
	} else {
		ps.inNames[name] = 0
	}
	var t *Term
	if ps.isConcrete {
		mv, ok := ps.concrete[name]
		if !ok {
			// unconstrained input: zero
			mv = ModelVal{Kind: s.K, R: new(big.Rat)}
		}
		switch s.K {
		case SBool:
			t = ps.ts.Bool(mv.U == 1)
		case SBV:
			t = ps.ts.BV(mv.U, int(s.W))
		case SReal:
			t = ps.ts.RealRat(mv.R)
		case SInt:
			t = ps.ts.mk(&Term{op: OpConst, sort: sortInt, r: mv.R})
		case SFP:
			t = ps.ts.FP(math.Float64frombits(mv.U))
		}
	} else {
		t = ps.ts.Var(name, s)
	}
	ps.inputs = append(ps.inputs, &InputRec{Name: name, Kind: kind, term: t})
	return t
}

// model asks the solver for a model of the current PC and returns input values.
func (ps *pathState) model() (map[string]ModelVal, string) {
	s := ps.w.solver
	r := s.Check(nil)
	defer s.Pop()
	if r != "sat" {
		return nil, r
	}
	var vars []*Term
	for _, in := range ps.inputs {
		if in.term.op == OpVar {
			vars = append(vars, in.term)
		}
	}
	m, err := s.Model(vars)
	if err != nil {
		return nil, "unknown"
	}
	return m, "sat"
}

func sortedKeys(m map[string]bool) []string {
	var ks []string
	for k := range m {
		ks = append(ks, k)
	}
	sort.Strings(ks)
	return ks
}
