package interp

// Pointers to an element selected by a symbolic (in-bounds) index.

import (
	"fmt"
	"go/types"
)

type idxptr struct {
	elems []value
	idx   *Term // 64-bit, proven in [0,len) on this path
}

func scalarKind(v value) (types.BasicKind, bool) {
	k := kindOfValue(v)
	switch k {
	case types.Invalid, types.Float32:
		return k, false
	}
	return k, true
}

// load reads through the pointer: an ite chain over the elements when they
// are scalars, otherwise a fork over the feasible indices.
func (p *idxptr) load(ps *pathState) value {
	n := len(p.elems)
	if n == 0 {
		panic(pathEnd{StEngineError, "idxptr.load on empty sequence"})
	}
	k0, ok := scalarKind(p.elems[0])
	if ok {
		for _, e := range p.elems[1:] {
			k, ok2 := scalarKind(e)
			if !ok2 || k != k0 {
				ok = false
				break
			}
		}
	}
	if !ok {
		q := p.concretePtr(ps)
		return *q
	}
	fs := SReal
	for _, e := range p.elems {
		if s, isS := e.(sym); isS && s.k == types.Float64 {
			fs = s.t.sort.K
		}
	}
	// runs of identical terms
	type run struct {
		end int
		t   *Term
	}
	var runs []run
	for i, e := range p.elems {
		t := ps.termOf(e, fs)
		if len(runs) > 0 && runs[len(runs)-1].t == t {
			runs[len(runs)-1].end = i
		} else {
			runs = append(runs, run{i, t})
		}
	}
	if len(runs) > 600 {
		panic(pathEnd{StUnsupported, fmt.Sprintf("symbolic index into %d distinct cells", len(runs))})
	}
	res := runs[len(runs)-1].t
	for i := len(runs) - 2; i >= 0; i-- {
		c := ps.ts.BvCmp(OpBvUle, p.idx, ps.ts.BV(uint64(runs[i].end), 64))
		res = ps.ts.Ite(c, runs[i].t, res)
	}
	return mkval(k0, res)
}

func (p *idxptr) store(ps *pathState, v value) {
	k, ok := scalarKind(v)
	if ok {
		for _, e := range p.elems {
			k2, ok2 := scalarKind(e)
			if !ok2 || k2 != k {
				ok = false
				break
			}
		}
	}
	if !ok || len(p.elems) > 64 {
		q := p.concretePtr(ps)
		*q = v
		return
	}
	fs := SReal
	if s, isS := v.(sym); isS && s.k == types.Float64 {
		fs = s.t.sort.K
	}
	tv := ps.termOf(v, fs)
	for i := range p.elems {
		c := ps.ts.Eq(p.idx, ps.ts.BV(uint64(i), 64))
		p.elems[i] = mkval(k, ps.ts.Ite(c, tv, ps.termOf(p.elems[i], fs)))
	}
}

// concretePtr forks over the feasible values of the index.
func (p *idxptr) concretePtr(ps *pathState) *value {
	i := ps.concretise(p.idx, "symbolic index into non-scalar cells")
	if i >= uint64(len(p.elems)) {
		panic(pathEnd{StEngineError, "concretised index out of range"})
	}
	return &p.elems[i]
}
