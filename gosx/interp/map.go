package interp

// Deterministic, insertion-ordered maps that tolerate symbolic keys.

import (
	"go/types"
)

type ment struct {
	key, val value
	deleted  bool
}

type omap struct {
	keyType types.Type
	ents    []*ment
	fast    map[value]*ment // concrete keys of builtin-hashable kinds
	syms    []*ment         // entries whose key is not fast-hashable
	n       int
}

func makeMap(kt types.Type, reserve int64) value {
	return &omap{keyType: kt, fast: make(map[value]*ment)}
}

func fastKey(k value) bool {
	switch k.(type) {
	case bool, int, int8, int16, int32, int64, uint, uint8, uint16, uint32, uint64, uintptr,
		float32, float64, string, *value, *channel:
		return true
	}
	return false
}

func (m *omap) find(ps *pathState, k value) *ment {
	if m == nil {
		return nil
	}
	if fastKey(k) {
		if e, ok := m.fast[k]; ok {
			return e
		}
		for _, e := range m.syms {
			if !e.deleted && equals(ps, m.keyType, k, e.key) {
				return e
			}
		}
		return nil
	}
	for _, e := range m.ents {
		if !e.deleted && equals(ps, m.keyType, k, e.key) {
			return e
		}
	}
	return nil
}

func (m *omap) lookup(ps *pathState, k value) (value, bool) {
	if e := m.find(ps, k); e != nil {
		return e.val, true
	}
	return nil, false
}

func (m *omap) insert(ps *pathState, k, v value) {
	if e := m.find(ps, k); e != nil {
		e.val = v
		return
	}
	e := &ment{key: k, val: v}
	m.ents = append(m.ents, e)
	if fastKey(k) {
		m.fast[k] = e
	} else {
		m.syms = append(m.syms, e)
	}
	m.n++
}

func (m *omap) delete(ps *pathState, k value) {
	if m == nil {
		return
	}
	if e := m.find(ps, k); e != nil {
		e.deleted = true
		m.n--
		if fastKey(e.key) {
			delete(m.fast, e.key)
		}
	}
}

func (m *omap) compact() {
	j := 0
	for _, e := range m.ents {
		if !e.deleted {
			m.ents[j] = e
			j++
		}
	}
	m.ents = m.ents[:j]
	j = 0
	for _, e := range m.syms {
		if !e.deleted {
			m.syms[j] = e
			j++
		}
	}
	m.syms = m.syms[:j]
}

func (m *omap) len() int {
	if m == nil {
		return 0
	}
	return m.n
}

func (m *omap) clear() {
	if m == nil {
		return
	}
	for _, e := range m.ents {
		e.deleted = true
	}
	m.ents = nil
	m.syms = nil
	m.fast = make(map[value]*ment)
	m.n = 0
}

// omapIter iterates in insertion order, or — in nondeterministic-order mode —
// picks any not-yet-visited live entry at every step (a decision point).
type omapIter struct {
	ps      *pathState
	m       *omap
	i       int
	visited map[*ment]bool
	nondet  bool
	order   []*ment
	chosen  bool
}

// In nondeterministic-order mode the order of a whole range loop is one
// decision: with all-orders every permutation of the live entries is explored
// step by step; otherwise n+1 representative orders: the n rotations of the
// insertion order and its reverse (Go itself starts the iteration of a map at a
// random position).
func (it *omapIter) next() tuple {
	if it.m == nil {
		return tuple{false, nil, nil}
	}
	if it.nondet && it.ps != nil && it.ps.nondetMap {
		if it.visited == nil {
			it.visited = map[*ment]bool{}
		}
		if it.ps.nondetMapAll {
			var cand []*ment
			for _, e := range it.m.ents {
				if !e.deleted && !it.visited[e] {
					cand = append(cand, e)
				}
			}
			if len(cand) == 0 {
				return tuple{false, nil, nil}
			}
			e := cand[it.ps.choose('m', len(cand))]
			it.visited[e] = true
			return tuple{true, e.key, e.val}
		}
		if !it.chosen {
			it.chosen = true
			var live []*ment
			for _, e := range it.m.ents {
				if !e.deleted {
					live = append(live, e)
				}
			}
			n := len(live)
			if n > 1 {
				c := it.ps.choose('m', n+1)
				if c == n {
					for k := n - 1; k >= 0; k-- {
						it.order = append(it.order, live[k])
					}
				} else {
					it.order = append(append(it.order, live[c:]...), live[:c]...)
				}
			} else {
				it.order = live
			}
		}
		for _, e := range it.order {
			if !e.deleted && !it.visited[e] {
				it.visited[e] = true
				return tuple{true, e.key, e.val}
			}
		}
		// entries inserted during the iteration
		for _, e := range it.m.ents {
			if !e.deleted && !it.visited[e] {
				it.visited[e] = true
				return tuple{true, e.key, e.val}
			}
		}
		return tuple{false, nil, nil}
	}
	for it.i < len(it.m.ents) {
		e := it.m.ents[it.i]
		it.i++
		if !e.deleted {
			return tuple{true, e.key, e.val}
		}
	}
	return tuple{false, nil, nil}
}
