package interp

// Intrinsics: environment stubs and functions that cannot be interpreted from
// SSA (assembly, unsafe, reflection). Keys are ssa.Function.String().

import (
	"fmt"
	"math/big"
	"go/token"
	"go/types"
	"math"
	"sort"
	"strconv"
	"strings"
	"unicode/utf8"

	"golang.org/x/tools/go/ssa"
)

type externalFn func(fr *frame, args []value) value

var externals = map[string]externalFn{}

func init() {
	for k, v := range map[string]externalFn{
		// formatting
		"fmt.Sprintf":  extSprintf,
		"fmt.Sprint":   extSprint,
		"fmt.Sprintln": extSprintln,
		"fmt.Errorf":   extErrorf,
		"fmt.Printf":   extDiscard,
		"fmt.Println":  extDiscard,
		"fmt.Print":    extDiscard,
		"fmt.Fprintf":  extFprint,
		"fmt.Fprintln": extFprint,
		"fmt.Fprint":   extFprint,
		// logging (empty bodies)
		"log.Print":   extDiscardNil,
		"log.Println": extDiscardNil,
		"log.Printf":  extDiscardNil,
		"log.Fatal":   extLogFatal,
		"log.Fatalf":  extLogFatal,
		"log.Fatalln": extLogFatal,
		"os.Exit": func(fr *frame, args []value) value {
			panic(exitPanic(asInt64(args[0])))
		},
		"runtime.NumCPU":     func(fr *frame, args []value) value { return fr.i.ps.numCPU() },
		"runtime.GOMAXPROCS": func(fr *frame, args []value) value { return 1 },
		"runtime.Gosched":    func(fr *frame, args []value) value { fr.i.ps.sched.preempt(fr.i.ps.sched.cur); return nil },
		"runtime.Caller": func(fr *frame, args []value) value {
			return tuple{uintptr(0), "gosx", 0, false}
		},
		"runtime.GC":            extNop,
		"runtime.KeepAlive":     extNop,
		"runtime.SetFinalizer":  extNop,
		"time.Sleep":            extNop,
		"internal/race.Enable":  extNop,
		"internal/race.Disable": extNop,
		// strconv
		"strconv.FormatFloat": extFormatFloat,
		"strconv.ParseFloat":  extParseFloat,
		"strconv.Itoa": func(fr *frame, args []value) value {
			return strconv.Itoa(int(concI(fr, args[0], "strconv.Itoa")))
		},
		"strconv.Atoi": func(fr *frame, args []value) value {
			if ss, ok := args[0].(*symstr); ok {
				return fr.i.ps.parseIntSym(fr, ss, types.Int)
			}
			n, err := strconv.Atoi(concStr(args[0], "strconv.Atoi"))
			return tuple{n, fr.i.mkError(err)}
		},
		"strconv.ParseInt": func(fr *frame, args []value) value {
			if ss, ok := args[0].(*symstr); ok {
				return fr.i.ps.parseIntSym(fr, ss, types.Int64)
			}
			n, err := strconv.ParseInt(concStr(args[0], "strconv.ParseInt"), int(asInt64(args[1])), int(asInt64(args[2])))
			return tuple{n, fr.i.mkError(err)}
		},
		"strconv.FormatInt": func(fr *frame, args []value) value {
			return strconv.FormatInt(concI(fr, args[0], "strconv.FormatInt"), int(asInt64(args[1])))
		},
		"strconv.Quote": func(fr *frame, args []value) value {
			return strconv.Quote(concStr(args[0], "strconv.Quote"))
		},
		// math
		"math.Max":   func(fr *frame, args []value) value { return mathMaxMin(fr, true, args) },
		"math.Min":   func(fr *frame, args []value) value { return mathMaxMin(fr, false, args) },
		"math.Abs":   extMathAbs,
		"math.NaN":   func(fr *frame, args []value) value { return math.NaN() },
		"math.Inf":   func(fr *frame, args []value) value { return math.Inf(int(asInt64(args[0]))) },
		"math.IsNaN": extMathIsNaN,
		"math.IsInf": extMathIsInf,
		"math.Round": func(fr *frame, args []value) value { return math1(fr, "math.Round", math.Round, args[0]) },
		"math.Floor": func(fr *frame, args []value) value { return math1(fr, "math.Floor", math.Floor, args[0]) },
		"math.Ceil":  func(fr *frame, args []value) value { return math1(fr, "math.Ceil", math.Ceil, args[0]) },
		"math.Trunc": func(fr *frame, args []value) value { return math1(fr, "math.Trunc", math.Trunc, args[0]) },
		"math.Sqrt":  func(fr *frame, args []value) value { return math1(fr, "math.Sqrt", math.Sqrt, args[0]) },
		"math.Log":   func(fr *frame, args []value) value { return math1(fr, "math.Log", math.Log, args[0]) },
		"math.Log2":  func(fr *frame, args []value) value { return math1(fr, "math.Log2", math.Log2, args[0]) },
		"math.Log10": func(fr *frame, args []value) value { return math1(fr, "math.Log10", math.Log10, args[0]) },
		"math.Exp":   func(fr *frame, args []value) value { return math1(fr, "math.Exp", math.Exp, args[0]) },
		"math.Pow10": func(fr *frame, args []value) value { return math.Pow10(int(asInt64(args[0]))) },
		"math.Pow": func(fr *frame, args []value) value {
			x, ok1 := args[0].(float64)
			y, ok2 := args[1].(float64)
			if ok1 && ok2 {
				return math.Pow(x, y)
			}
			panic(pathEnd{StUnsupported, "math.Pow on symbolic operand"})
		},
		"math.Float64bits":     func(fr *frame, args []value) value { return math.Float64bits(concF(args[0], "math.Float64bits")) },
		"math.Float64frombits": func(fr *frame, args []value) value { return math.Float64frombits(uint64(asInt64(args[0]))) },
		"math.Float32bits":     func(fr *frame, args []value) value { return math.Float32bits(args[0].(float32)) },
		"math.Float32frombits": func(fr *frame, args []value) value { return math.Float32frombits(uint32(asInt64(args[0]))) },
		"math.Mod": func(fr *frame, args []value) value {
			return math.Mod(concF(args[0], "math.Mod"), concF(args[1], "math.Mod"))
		},
		"math.archFloor": func(fr *frame, args []value) value { return math1(fr, "math.Floor", math.Floor, args[0]) },
		"math.archCeil":  func(fr *frame, args []value) value { return math1(fr, "math.Ceil", math.Ceil, args[0]) },
		"math.archTrunc": func(fr *frame, args []value) value { return math1(fr, "math.Trunc", math.Trunc, args[0]) },
		"math.archSqrt":  func(fr *frame, args []value) value { return math1(fr, "math.Sqrt", math.Sqrt, args[0]) },
		// math/bits on concrete operands run natively; symbolic ones are interpreted from SSA
		// random numbers: every in-range draw
		"math/rand.Intn":               func(fr *frame, args []value) value { return fr.i.ps.randIntn(nil, args[0], types.Int) },
		"(*math/rand.Rand).Intn":       func(fr *frame, args []value) value { return fr.i.ps.randIntn(args[0], args[1], types.Int) },
		"math/rand.Int31n":             func(fr *frame, args []value) value { return fr.i.ps.randIntn(nil, args[0], types.Int32) },
		"(*math/rand.Rand).Int31n":     func(fr *frame, args []value) value { return fr.i.ps.randIntn(args[0], args[1], types.Int32) },
		"(*math/rand.Rand).int31n":     func(fr *frame, args []value) value { return fr.i.ps.randIntn(args[0], args[1], types.Int32) },
		"math/rand.Int63n":             func(fr *frame, args []value) value { return fr.i.ps.randIntn(nil, args[0], types.Int64) },
		"(*math/rand.Rand).Int63n":     func(fr *frame, args []value) value { return fr.i.ps.randIntn(args[0], args[1], types.Int64) },
		"math/rand.Float64":            func(fr *frame, args []value) value { return fr.i.ps.randFloat(nil) },
		"(*math/rand.Rand).Float64":    func(fr *frame, args []value) value { return fr.i.ps.randFloat(args[0]) },
		"math/rand.ExpFloat64":         func(fr *frame, args []value) value { return fr.i.ps.randExp(nil) },
		"(*math/rand.Rand).ExpFloat64": func(fr *frame, args []value) value { return fr.i.ps.randExp(args[0]) },
		"math/rand.Int63":              func(fr *frame, args []value) value { return fr.i.ps.randWord(nil, types.Int64, 63) },
		"(*math/rand.Rand).Int63":      func(fr *frame, args []value) value { return fr.i.ps.randWord(args[0], types.Int64, 63) },
		"math/rand.Int":                func(fr *frame, args []value) value { return fr.i.ps.randWord(nil, types.Int, 63) },
		"(*math/rand.Rand).Int":        func(fr *frame, args []value) value { return fr.i.ps.randWord(args[0], types.Int, 63) },
		"math/rand.Int31":              func(fr *frame, args []value) value { return fr.i.ps.randWord(nil, types.Int32, 31) },
		"(*math/rand.Rand).Int31":      func(fr *frame, args []value) value { return fr.i.ps.randWord(args[0], types.Int32, 31) },
		"(*os.File).WriteString": func(fr *frame, args []value) value {
			// in-memory sink (cmd harnesses): the text is kept for sxOutput()
			fr.i.ps.out = append(fr.i.ps.out, strElems(args[1])...)
			return tuple{strLen(args[1]), iface{}}
		},
		"(*os.File).Write": func(fr *frame, args []value) value {
			b, _ := args[1].([]value)
			fr.i.ps.out = append(fr.i.ps.out, b...)
			return tuple{len(b), iface{}}
		},
		"(*os.File).Close": func(fr *frame, args []value) value { return iface{} },
		"errors.Is": extErrorsIs,
		"math/rand.Seed": func(fr *frame, args []value) value {
			// the seed given to the generator is part of what a run depends on
			ps := fr.i.ps
			if sv, ok := args[0].(sym); ok {
				ps.lastSeed, ps.lastSeedSym, ps.seeded = sv, true, true
			} else {
				ps.lastSeed, ps.lastSeedSym, ps.seeded = args[0], false, true
			}
			ps.genSeed(nil, args[0])
			return nil
		},
		"(*math/rand.Rand).Seed": func(fr *frame, args []value) value {
			fr.i.ps.genSeed(args[0], args[1])
			return nil
		},
		"math/rand.globalRand": func(fr *frame, args []value) value { return (*value)(nil) },
		"math/rand.New": func(fr *frame, args []value) value {
			// rand.New(rand.NewSource(x)): a private generator whose stream is a function of x
			v := value(structure{})
			p := &v
			ps := fr.i.ps
			if x, ok := ps.side["rand.NewSource"]; ok && ps.seededRand {
				ps.genSeed(p, x.(value))
				delete(ps.side, "rand.NewSource")
			}
			return p
		},
		"math/rand.NewSource": func(fr *frame, args []value) value {
			fr.i.ps.side["rand.NewSource"] = args[0]
			return iface{}
		},
		"github.com/fredericlemoine/gostats.Exp": func(fr *frame, args []value) value {
			return fr.i.ps.randExp(nil)
		},
		// sorting
		"sort.Slice":       func(fr *frame, args []value) value { return extSortSlice(fr, args) },
		"sort.SliceStable": func(fr *frame, args []value) value { return extSortSlice(fr, args) },
		"sort.Strings": func(fr *frame, args []value) value {
			s := args[0].([]value)
			fr.i.ps.insertionSort(len(s), func(a, b int) bool {
				return fr.i.ps.decideVal(fr.i.ps.strBinop(token.LSS, s[a], s[b]))
			}, func(a, b int) { s[a], s[b] = s[b], s[a] })
			return nil
		},
		"sort.Ints": func(fr *frame, args []value) value {
			s := args[0].([]value)
			fr.i.ps.insertionSort(len(s), func(a, b int) bool {
				return fr.i.ps.decideVal(binop(fr.i.ps, token.LSS, nil, s[a], s[b]))
			}, func(a, b int) { s[a], s[b] = s[b], s[a] })
			return nil
		},
		"sort.Float64s": func(fr *frame, args []value) value {
			s := args[0].([]value)
			fr.i.ps.insertionSort(len(s), func(a, b int) bool {
				return fr.i.ps.decideVal(binop(fr.i.ps, token.LSS, nil, s[a], s[b]))
			}, func(a, b int) { s[a], s[b] = s[b], s[a] })
			return nil
		},
		// strings / bytes leaves
		"internal/bytealg.IndexByte":       func(fr *frame, args []value) value { return fr.i.ps.indexByte(args[0].([]value), args[1]) },
		"internal/bytealg.IndexByteString": func(fr *frame, args []value) value { return fr.i.ps.indexByte(strElems(args[0]), args[1]) },
		"internal/bytealg.CountString": func(fr *frame, args []value) value {
			return fr.i.ps.countByte(strElems(args[0]), args[1])
		},
		"internal/bytealg.Count": func(fr *frame, args []value) value {
			return fr.i.ps.countByte(args[0].([]value), args[1])
		},
		"internal/bytealg.MakeNoZero": func(fr *frame, args []value) value {
			n := int(asInt64(args[0]))
			s := make([]value, n)
			for i := range s {
				s[i] = uint8(0)
			}
			return s
		},
		"internal/bytealg.Equal": func(fr *frame, args []value) value {
			return mkval(types.Bool, fr.i.ps.strEqTerm(normStr(args[0].([]value)), normStr(args[1].([]value))))
		},
		"bytes.Equal": func(fr *frame, args []value) value {
			return mkval(types.Bool, fr.i.ps.strEqTerm(normStr(args[0].([]value)), normStr(args[1].([]value))))
		},
		"internal/bytealg.Compare": func(fr *frame, args []value) value {
			return fr.i.ps.strCompare(normStr(args[0].([]value)), normStr(args[1].([]value)))
		},
		"strings.Compare": func(fr *frame, args []value) value { return fr.i.ps.strCompare(args[0], args[1]) },
		"internal/bytealg.IndexString": func(fr *frame, args []value) value {
			return strings.Index(concStr(args[0], "bytealg.IndexString"), concStr(args[1], "bytealg.IndexString"))
		},
		"strings.Index":          extStringsIndex,
		"strings.Contains":       func(fr *frame, args []value) value { return extStringsIndex(fr, args).(int) >= 0 },
		"(*strings.Builder).String": func(fr *frame, args []value) value {
			b := (*args[0].(*value)).(structure)
			return normStr(b[1].([]value))
		},
		"(*strings.Builder).copyCheck": extNop,
		"strings.Replace": func(fr *frame, args []value) value {
			return strings.Replace(concStr(args[0], "strings.Replace"), concStr(args[1], "strings.Replace"), concStr(args[2], "strings.Replace"), int(asInt64(args[3])))
		},
		"strings.ToUpper": func(fr *frame, args []value) value { return fr.i.ps.caseMap(args[0], true) },
		"strings.ToLower": func(fr *frame, args []value) value { return fr.i.ps.caseMap(args[0], false) },
		"unique.Make[string]": func(fr *frame, args []value) value { return args[0] },
		// hash/maphash: seeds are random per process, so a hash is an arbitrary
		// value per distinct content, consistent within one run
		"hash/maphash.MakeSeed": func(fr *frame, args []value) value { return structure{uint64(1)} },
		"hash/maphash.String": func(fr *frame, args []value) value {
			return fr.i.ps.processHash("maphash:" + concStr(args[1], "maphash.String"))
		},
		"hash/maphash.Bytes": func(fr *frame, args []value) value {
			return fr.i.ps.processHash("maphash:" + concStr(normStr(args[1].([]value)), "maphash.Bytes"))
		},
		"strings.TrimRight": func(fr *frame, args []value) value {
			return fr.i.ps.trimElems(args[0], concStr(args[1], "TrimRight cutset"), false, true)
		},
		"strings.TrimLeft": func(fr *frame, args []value) value {
			return fr.i.ps.trimElems(args[0], concStr(args[1], "TrimLeft cutset"), true, false)
		},
		"strings.Trim": func(fr *frame, args []value) value {
			return fr.i.ps.trimElems(args[0], concStr(args[1], "Trim cutset"), true, true)
		},
		"strings.TrimSpace": func(fr *frame, args []value) value {
			if s, ok := args[0].(string); ok {
				return strings.TrimSpace(s)
			}
			return fr.i.ps.trimElems(args[0], "\t\n\v\f\r \x85\xa0", true, true)
		},
		"unicode/utf8.FullRune": func(fr *frame, args []value) value {
			e := args[0].([]value)
			if len(e) == 0 {
				return false
			}
			switch b := e[0].(type) {
			case ffElem:
				return true
			case sym:
				fr.i.ps.requireASCII(b, "utf8.FullRune")
				return true
			}
			var buf []byte
			for _, x := range e {
				c, ok := x.(uint8)
				if !ok || len(buf) == 4 {
					break
				}
				buf = append(buf, c)
			}
			return utf8.FullRune(buf)
		},
		// sync
		"(*sync.WaitGroup).Add":  extWGAdd,
		"(*sync.WaitGroup).Done": func(fr *frame, args []value) value { return extWGAdd(fr, []value{args[0], -1}) },
		"(*sync.WaitGroup).Wait": extWGWait,
		"(*sync.Mutex).Lock":     extMuLock,
		"(*sync.Mutex).Unlock":   extMuUnlock,
		"(*sync.RWMutex).Lock":   extMuLock,
		"(*sync.RWMutex).Unlock": extMuUnlock,
		"(*sync.RWMutex).RLock":  extMuRLock,
		"(*sync.RWMutex).RUnlock": extMuRUnlock,
		"(*sync.Once).Do": func(fr *frame, args []value) value {
			p := args[0].(*value)
			if _, done := fr.i.ps.side[p]; !done {
				fr.i.ps.side[p] = true
				call(fr.i, fr, token.NoPos, args[1], nil)
			}
			return nil
		},
		"(*sync.Pool).Get": func(fr *frame, args []value) value {
			p := (*args[0].(*value)).(structure)
			// field "New" is the last one
			newf := p[len(p)-1]
			if f, ok := newf.(*ssa.Function); ok && f == nil {
				return iface{}
			}
			return call(fr.i, fr, token.NoPos, newf, nil)
		},
		"(*sync.Pool).Put": extNop,
		// atomics (run while holding the baton; they are scheduling points)
		"sync/atomic.AddInt32":  func(fr *frame, args []value) value { return atomicAdd(fr, args) },
		"sync/atomic.AddInt64":  func(fr *frame, args []value) value { return atomicAdd(fr, args) },
		"sync/atomic.AddUint32": func(fr *frame, args []value) value { return atomicAdd(fr, args) },
		"sync/atomic.AddUint64": func(fr *frame, args []value) value { return atomicAdd(fr, args) },
		"sync/atomic.LoadInt32": func(fr *frame, args []value) value { return atomicLoad(fr, args) },
		"sync/atomic.LoadInt64": func(fr *frame, args []value) value { return atomicLoad(fr, args) },
		"sync/atomic.LoadUint32": func(fr *frame, args []value) value { return atomicLoad(fr, args) },
		"sync/atomic.LoadUint64": func(fr *frame, args []value) value { return atomicLoad(fr, args) },
		"sync/atomic.StoreInt32": func(fr *frame, args []value) value { return atomicStore(fr, args) },
		"sync/atomic.StoreInt64": func(fr *frame, args []value) value { return atomicStore(fr, args) },
		"sync/atomic.StoreUint32": func(fr *frame, args []value) value { return atomicStore(fr, args) },
		"sync/atomic.StoreUint64": func(fr *frame, args []value) value { return atomicStore(fr, args) },
		"sync/atomic.CompareAndSwapInt32":  func(fr *frame, args []value) value { return atomicCAS(fr, args) },
		"sync/atomic.CompareAndSwapInt64":  func(fr *frame, args []value) value { return atomicCAS(fr, args) },
		"sync/atomic.CompareAndSwapUint32": func(fr *frame, args []value) value { return atomicCAS(fr, args) },
		"sync/atomic.CompareAndSwapUint64": func(fr *frame, args []value) value { return atomicCAS(fr, args) },
		// time
		"time.Now": func(fr *frame, args []value) value {
			// arbitrary instant: wall, ext symbolic; loc nil
			ps := fr.i.ps
			w := mkval(types.Uint64, ps.newInput("clock.wall", "clock", bvSort(64)))
			e := mkval(types.Int64, ps.newInput("clock.ext", "clock", bvSort(64)))
			return structure{w, e, (*value)(nil)}
		},
		"time.Since": func(fr *frame, args []value) value {
			return mkval(types.Int64, fr.i.ps.newInput("clock.since", "clock", bvSort(64)))
		},
	} {
		externals[k] = v
	}
}

func extNop(fr *frame, args []value) value        { return nil }
func extDiscardNil(fr *frame, args []value) value { return nil }

// extErrorsIs: errors.Is without reflection - identity of comparable error
// values, the Is(error) bool method, and Unwrap() error chains.
func extErrorsIs(fr *frame, args []value) value {
	err, _ := args[0].(iface)
	target, _ := args[1].(iface)
	for depth := 0; depth < 64; depth++ {
		if err.t == nil {
			return target.t == nil
		}
		if target.t != nil && types.Identical(err.t, target.t) && types.Comparable(err.t) && equals(fr.i.ps, err.t, err.v, target.v) {
			return true
		}
		lookup := func(name string) *ssa.Function {
			sel := fr.i.prog.MethodSets.MethodSet(err.t).Lookup(nil, name)
			if sel == nil {
				return nil
			}
			return fr.i.prog.MethodValue(sel)
		}
		if m := lookup("Is"); m != nil && m.Signature.Params().Len() == 1 && m.Signature.Results().Len() == 1 {
			if r, ok := call(fr.i, fr, token.NoPos, m, []value{err.v, target}).(bool); ok && r {
				return true
			}
		}
		m := lookup("Unwrap")
		if m == nil || m.Signature.Params().Len() != 0 || m.Signature.Results().Len() != 1 {
			return false
		}
		next, ok := call(fr.i, fr, token.NoPos, m, []value{err.v}).(iface)
		if !ok {
			return false
		}
		err = next
	}
	return false
}

// sinkFile: the *os.File the cmd harness stubs hand out as output file (nil if none).
func (i *interpreter) sinkFile() *value {
	for pkg := range i.harnessPkgs {
		if g, ok := pkg.Members["zzSinkFile"].(*ssa.Global); ok {
			if cell := i.globals[g]; cell != nil {
				if p, ok := (*cell).(*value); ok {
					return p
				}
			}
		}
	}
	return nil
}

// fmt.Print* to stdout: output is discarded; returns (n, nil error).
func extDiscard(fr *frame, args []value) value { return tuple{0, iface{}} }

func extLogFatal(fr *frame, args []value) value { panic(exitPanic(1)) }

// fmt.Fprint*(w, ...): writes to os.Stderr/os.Stdout are discarded; writes to
// an interpreted io.Writer are formatted natively and passed to its Write.
func extFprint(fr *frame, args []value) value {
	w := args[0].(iface)
	name := fr.fn.Name()
	toSink := false
	if w.t != nil && strings.Contains(w.t.String(), "os.File") {
		// the harness global zzSinkFile is the in-memory sink handed out by the cmd
		// harness stubs; anything else (os.Stdout, os.Stderr) is discarded
		if p, ok := w.v.(*value); !ok || p == nil || p != fr.i.sinkFile() {
			return tuple{0, iface{}}
		}
		toSink = true
	}
	var s string
	switch name {
	case "Fprintf":
		s = fr.i.sprintf(fr, args[1], args[2].([]value), false)
	case "Fprintln":
		s = fr.i.sprint(fr, args[1].([]value), true)
	default:
		s = fr.i.sprint(fr, args[1].([]value), false)
	}
	if toSink {
		for i := 0; i < len(s); i++ {
			fr.i.ps.out = append(fr.i.ps.out, s[i])
		}
		return tuple{len(s), iface{}}
	}
	if w.t == nil {
		fr.i.ps.nilDeref()
	}
	wm := fr.i.prog.LookupMethod(w.t, nil, "Write")
	if wm == nil {
		panic(pathEnd{StUnsupported, "Fprint to writer without Write method"})
	}
	bs := strElems(s)
	return call(fr.i, fr, token.NoPos, wm, []value{w.v, bs})
}

func concI(fr *frame, v value, where string) int64 {
	if _, ok := v.(sym); ok {
		panic(pathEnd{StUnsupported, "symbolic integer passed to " + where})
	}
	return asInt64(v)
}

func concF(v value, where string) float64 {
	if f, ok := v.(float64); ok {
		return f
	}
	panic(pathEnd{StUnsupported, "symbolic float passed to " + where})
}

func (ps *pathState) decideVal(v value) bool {
	switch v := v.(type) {
	case bool:
		return v
	case sym:
		return ps.decide(v.t)
	}
	panic(fmt.Sprintf("decideVal: %T", v))
}

func (ps *pathState) numCPU() value {
	if ps.numCPUSym {
		t := ps.newInput("NumCPU", "env", bvSort(64))
		ps.addPC(ps.ts.And(ps.ts.BvCmp(OpBvSle, ps.ts.BV(1, 64), t), ps.ts.BvCmp(OpBvSle, t, ps.ts.BV(16, 64))))
		return mkval(types.Int, t)
	}
	return 4
}

// ---- errors ----

// mkError converts a native error to an interpreted error value
// (*errors.errorString).
func (i *interpreter) mkError(err error) value {
	if err == nil {
		return iface{}
	}
	return i.mkErrorStr(err.Error())
}

func (i *interpreter) mkErrorStr(msg value) value {
	errs := i.prog.ImportedPackage("errors")
	if errs == nil {
		panic(pathEnd{StUnsupported, "package errors not loaded"})
	}
	return callSSA(i, nil, token.NoPos, errs.Func("New"), []value{msg}, nil)
}

// ---- fmt ----

// native converts an interpreted value (usually an interface) to a Go value
// fit for fmt. Symbolic content becomes a placeholder unless strict.
func (i *interpreter) native(fr *frame, v value, strict bool) interface{} {
	switch x := v.(type) {
	case iface:
		if x.t == nil {
			return nil
		}
		// Error() / String() methods
		for _, mname := range []string{"Error", "String"} {
			sel := i.prog.MethodSets.MethodSet(x.t).Lookup(nil, mname)
			if sel == nil {
				continue
			}
			if m := i.prog.MethodValue(sel); m != nil && m.Signature.Params().Len() == 0 && m.Signature.Results().Len() == 1 {
				if b, ok := m.Signature.Results().At(0).Type().Underlying().(*types.Basic); ok && b.Kind() == types.String {
					if p, isPtr := x.v.(*value); isPtr && p == nil {
						return "<nil>"
					}
					r := call(i, fr, token.NoPos, m, []value{x.v})
					return i.native(fr, r, strict)
				}
			}
		}
		return i.native(fr, x.v, strict)
	case sym:
		if strict {
			panic(pathEnd{StUnsupported, "symbolic scalar formatted by fmt"})
		}
		return "¿"
	case *symstr:
		if strict {
			panic(pathEnd{StUnsupported, "symbolic string formatted by fmt"})
		}
		return x.String()
	case bool, int, int8, int16, int32, int64, uint, uint8, uint16, uint32, uint64, uintptr, float32, float64, string, complex64, complex128:
		return x
	case *value:
		if x == nil {
			return nil
		}
		return fmt.Sprintf("%p", x)
	case []value:
		out := make([]interface{}, len(x))
		for j, e := range x {
			out[j] = i.native(fr, e, strict)
		}
		return out
	case structure:
		out := make([]interface{}, len(x))
		for j, e := range x {
			out[j] = i.native(fr, e, strict)
		}
		return out
	case array:
		out := make([]interface{}, len(x))
		for j, e := range x {
			out[j] = i.native(fr, e, strict)
		}
		return out
	}
	return fmt.Sprintf("<%T>", v)
}

func (i *interpreter) sprintf(fr *frame, format value, args []value, strict bool) string {
	f := concStr(format, "fmt format")
	nat := make([]interface{}, len(args))
	for j, a := range args {
		nat[j] = i.native(fr, a, strict)
	}
	return fmt.Sprintf(f, nat...)
}

func (i *interpreter) sprint(fr *frame, args []value, ln bool) string {
	nat := make([]interface{}, len(args))
	for j, a := range args {
		nat[j] = i.native(fr, a, true)
	}
	if ln {
		return fmt.Sprintln(nat...)
	}
	return fmt.Sprint(nat...)
}

func extSprintf(fr *frame, args []value) value {
	return fr.i.sprintfSym(fr, args[0], args[1].([]value))
}

// sprintfSym: Sprintf in which %s / %v arguments may be strings with symbolic
// content; those are spliced in element-wise, everything else is formatted by
// the real fmt on concrete values.
func (i *interpreter) sprintfSym(fr *frame, format value, args []value) value {
	hasSym := false
	for _, a := range args {
		v := a
		if it, ok := v.(iface); ok {
			v = it.v
		}
		if _, ok := v.(*symstr); ok {
			hasSym = true
		}
	}
	if !hasSym {
		return i.sprintf(fr, format, args, true)
	}
	f := concStr(format, "fmt format")
	var out []value
	lit := func(s string) {
		for k := 0; k < len(s); k++ {
			out = append(out, s[k])
		}
	}
	ai := 0
	for k := 0; k < len(f); {
		if f[k] != '%' {
			out = append(out, f[k])
			k++
			continue
		}
		if k+1 < len(f) && f[k+1] == '%' {
			out = append(out, uint8('%'))
			k += 2
			continue
		}
		// verb: %[flags][width][.prec]verb
		j := k + 1
		for j < len(f) && strings.IndexByte("+-# 0123456789.", f[j]) >= 0 {
			j++
		}
		if j >= len(f) || ai >= len(args) {
			panic(pathEnd{StUnsupported, "malformed format with symbolic argument: " + f})
		}
		verb := f[k : j+1]
		a := args[ai]
		ai++
		v := a
		if it, ok := v.(iface); ok {
			v = it.v
		}
		if ss, ok := v.(*symstr); ok {
			if verb != "%s" && verb != "%v" {
				panic(pathEnd{StUnsupported, "symbolic string formatted with " + verb})
			}
			out = append(out, ss.e...)
		} else {
			lit(fmt.Sprintf(verb, i.native(fr, a, true)))
		}
		k = j + 1
	}
	return normStr(out)
}
func extSprint(fr *frame, args []value) value   { return fr.i.sprint(fr, args[0].([]value), false) }
func extSprintln(fr *frame, args []value) value { return fr.i.sprint(fr, args[0].([]value), true) }
func extErrorf(fr *frame, args []value) value {
	// error messages are opaque to the encoded code: symbolic content is rendered as a placeholder
	return fr.i.mkErrorStr(fr.i.sprintf(fr, args[0], args[1].([]value), false))
}

// ---- strconv floats ----

func extFormatFloat(fr *frame, args []value) value {
	f := byte(asInt64(args[1]))
	prec := int(asInt64(args[2]))
	bits := int(asInt64(args[3]))
	switch x := args[0].(type) {
	case float64:
		return strconv.FormatFloat(x, f, prec, bits)
	case sym:
		return &symstr{e: []value{ffElem{x: x.t, f: f, prec: prec, bits: bits}}}
	}
	panic(fmt.Sprintf("FormatFloat: %T", args[0]))
}

// ffElem is the float-text pseudo byte: the whole text
// strconv.FormatFloat(x, f, prec, 64) of a symbolic float.
type ffElem struct {
	bits int // 32 or 64: only a 64-bit shortest text reads back as the same value
	x    *Term
	f    byte
	prec int
}

func extParseFloat(fr *frame, args []value) value {
	ps := fr.i.ps
	switch s := args[0].(type) {
	case string:
		v, err := strconv.ParseFloat(s, int(asInt64(args[1])))
		return tuple{v, fr.i.mkError(err)}
	case *symstr:
		return ps.parseFloatSym(fr, s)
	}
	panic(fmt.Sprintf("ParseFloat: %T", args[0]))
}

// parseFloatSym: contract-based ParseFloat on strings with symbolic content.
func (ps *pathState) parseFloatSym(fr *frame, s *symstr) value {
	nFF := 0
	for _, e := range s.e {
		if _, ok := e.(ffElem); ok {
			nFF++
		}
	}
	errv := func() value { return fr.i.mkErrorStr("strconv.ParseFloat: parsing: invalid syntax") }
	if nFF == 1 && len(s.e) == 1 {
		ff := s.e[0].(ffElem)
		if ff.prec == -1 && ff.bits == 64 && (ff.f == 'e' || ff.f == 'f' || ff.f == 'g' || ff.f == 'E' || ff.f == 'G') {
			return tuple{mkval(types.Float64, ff.x), iface{}}
		}
		// lossy text: value is unconstrained
		return tuple{mkval(types.Float64, ps.ts.FreshVar("lossyfloat", ff.x.sort)), iface{}}
	}
	if nFF > 0 {
		// float text glued to other characters
		for _, e := range s.e {
			if b, ok := e.(uint8); ok {
				if !strings.ContainsRune("0123456789.+-eE", rune(b)) {
					return tuple{float64(0), errv()}
				}
			}
		}
		panic(pathEnd{StUnsupported, "ParseFloat of float text concatenated with float-like characters"})
	}
	// symbolic bytes: memoised nondeterministic (is-number, value)
	key := "pf:" + s.key()
	if v, ok := ps.memo[key]; ok {
		return v
	}
	// a concrete byte outside the float alphabet (incl. inf/nan/hex/underscore letters) makes it an error for sure
	for _, e := range s.e {
		if b, ok := e.(uint8); ok {
			if !strings.ContainsRune("0123456789.+-eEinfatyxpINFATYXP_abcdfABCDF", rune(b)) {
				r := tuple{float64(0), errv()}
				ps.memo[key] = r
				return r
			}
		}
	}
	isNum := ps.choose('c', 2) == 1
	var r value
	if isNum {
		if ps.numericNamesExcluded {
			panic(pathEnd{StAssumeFail, "numeric-looking symbolic identifier excluded by harness precondition"})
		}
		r = tuple{mkval(types.Float64, ps.newInput("parsed", "parsefloat", sortReal)), iface{}}
	} else {
		r = tuple{float64(0), errv()}
	}
	ps.memo[key] = r
	return r
}

func (s *symstr) key() string {
	var sb strings.Builder
	for _, e := range s.e {
		switch e := e.(type) {
		case uint8:
			fmt.Fprintf(&sb, "%02x", e)
		case sym:
			fmt.Fprintf(&sb, "[%d]", e.t.id)
		case ffElem:
			fmt.Fprintf(&sb, "{%d}", e.x.id)
		}
	}
	return sb.String()
}

// ---- math ----

func mathMaxMin(fr *frame, isMax bool, args []value) value {
	x, okx := args[0].(float64)
	y, oky := args[1].(float64)
	if okx && oky {
		if isMax {
			return math.Max(x, y)
		}
		return math.Min(x, y)
	}
	return fr.i.ps.symMinMax(isMax, args[0], args[1])
}

func extMathAbs(fr *frame, args []value) value {
	if x, ok := args[0].(float64); ok {
		return math.Abs(x)
	}
	ps := fr.i.ps
	x := args[0].(sym)
	neg := ps.symUnop(token.SUB, x)
	var zero value = float64(0)
	lt := ps.symBinop(token.LSS, x, zero)
	fs := x.t.sort.K
	return mkval(types.Float64, ps.ts.Ite(ps.termOf(lt, 0), ps.termOf(neg, fs), x.t))
}

func extMathIsNaN(fr *frame, args []value) value {
	if x, ok := args[0].(float64); ok {
		return math.IsNaN(x)
	}
	x := args[0].(sym)
	if x.t.sort.K == SFP {
		return mkval(types.Bool, fr.i.ps.ts.FIsNaN(x.t))
	}
	return false // real-encoded floats are finite by construction
}

func extMathIsInf(fr *frame, args []value) value {
	if x, ok := args[0].(float64); ok {
		return math.IsInf(x, int(asInt64(args[1])))
	}
	x := args[0].(sym)
	if x.t.sort.K == SFP {
		return mkval(types.Bool, fr.i.ps.ts.FIsInf(x.t))
	}
	return false
}

func math1(fr *frame, name string, f func(float64) float64, x value) value {
	if c, ok := x.(float64); ok {
		return f(c)
	}
	s := x.(sym)
	// uninterpreted beyond congruence
	return mkval(types.Float64, fr.i.ps.ts.UF(name, s.t.sort, s.t))
}

// ---- random draws ----

// ---- seeded generators (option "seeded-rand") ----
//
// A generator is a state term; a draw is an uninterpreted function of the
// state (and of the range), and moves the state on by another uninterpreted
// function: the k-th draw after Seed(s) is a function of s and of the calls
// made since - nothing else. rand.New(rand.NewSource(x)) starts a private
// stream that is a function of x. A generator that was never seeded has an
// arbitrary state.

type genKey struct{ p *value }

func genOf(recv value) genKey {
	if p, ok := recv.(*value); ok {
		return genKey{p}
	}
	return genKey{nil}
}

func (ps *pathState) genSeed(recv value, seed value) {
	if !ps.seededRand {
		return
	}
	ps.side[genOf(recv)] = ps.ts.UF("rnd_seed", bvSort(64), ps.termOf(seed, 0))
}

func (ps *pathState) genState(recv value) *Term {
	k := genOf(recv)
	if st, ok := ps.side[k]; ok {
		return st.(*Term)
	}
	st := ps.newInput("generator_state", "env", bvSort(64))
	ps.side[k] = st
	return st
}

// genDraw: the next value of the generator's stream, of sort res.
func (ps *pathState) genDraw(recv value, kind string, rng *Term, res Sort) *Term {
	st := ps.genState(recv)
	args := []*Term{st}
	if rng != nil {
		args = append(args, rng)
	}
	v := ps.ts.UF("rnd_val_"+kind, res, args...)
	ps.side[genOf(recv)] = ps.ts.UF("rnd_next_"+kind, bvSort(64), args...)
	ps.nrand++
	return v
}

// randWord: rand.Int63 / Int / Int31 (non-negative, bits wide).
func (ps *pathState) randWord(recv value, k types.BasicKind, bits int) value {
	w, _ := kindBits(k)
	var r *Term
	if ps.seededRand {
		r = ps.genDraw(recv, fmt.Sprintf("word%d_%d", w, bits), nil, bvSort(w))
	} else {
		r = ps.newInput(fmt.Sprintf("rand%d", ps.nrand), "rand", bvSort(w))
		ps.nrand++
	}
	if bits < w {
		ps.addPC(ps.ts.BvCmp(OpBvUlt, r, ps.ts.BV(uint64(1)<<uint(bits), w)))
	}
	return mkval(k, r)
}

func (ps *pathState) randIntn(recv value, n value, k types.BasicKind) value {
	w, _ := kindBits(k)
	tn := ps.termOf(n, 0)
	zero := ps.ts.BV(0, w)
	if ps.decide(ps.ts.BvCmp(OpBvSle, tn, zero)) {
		panic(targetPanic{iface{types.Typ[types.String], "invalid argument to Intn"}})
	}
	if ps.seededRand {
		r := ps.genDraw(recv, fmt.Sprintf("intn%d", w), tn, bvSort(w))
		ps.addPC(ps.ts.And(ps.ts.BvCmp(OpBvSle, zero, r), ps.ts.BvCmp(OpBvSlt, r, tn)))
		return mkval(k, r)
	}
	r := ps.newInput(fmt.Sprintf("rand%d", ps.nrand), "rand", bvSort(w))
	ps.nrand++
	ps.addPC(ps.ts.And(ps.ts.BvCmp(OpBvSle, zero, r), ps.ts.BvCmp(OpBvSlt, r, tn)))
	ps.randRanges = append(ps.randRanges, n)
	ps.randVars = append(ps.randVars, r)
	return mkval(k, r)
}

func (ps *pathState) randFloat(recv value) value {
	if ps.seededRand {
		r := ps.genDraw(recv, "float", nil, sortReal)
		ps.addPC(ps.ts.And(ps.ts.RCmp(OpRLe, ps.ts.RealF(0), r), ps.ts.RCmp(OpRLt, r, ps.ts.RealF(1))))
		return mkval(types.Float64, r)
	}
	r := ps.newInput(fmt.Sprintf("randf%d", ps.nrand), "randf", sortReal)
	ps.nrand++
	ps.addPC(ps.ts.And(ps.ts.RCmp(OpRLe, ps.ts.RealF(0), r), ps.ts.RCmp(OpRLt, r, ps.ts.RealF(1))))
	if ps.probMode {
		// continuous uniform draw on [0,1): its weight is the length of the
		// interval hull of its projection (see pathWeight)
		ps.randRanges = append(ps.randRanges, realDraw{})
		ps.randVars = append(ps.randVars, r)
	}
	return mkval(types.Float64, r)
}

// realDraw marks, among the ranges of the random draws of a path, a draw of
// rand.Float64: uniform on [0,1), modelled as a real (the 2^-53 grid of the
// real generator is not modelled).
type realDraw struct{}

// realHull: bounds lo <= inf, sup <= hi of the projection of the path
// condition on the real draw r, found by bisection to 2^-44, rounded to the
// simplest rational nearby and then certified by two solver queries.
func (ps *pathState) realHull(r *Term) (lo, hi *big.Rat, why string) {
	s := ps.w.solver
	ts := ps.ts
	chk := func(t *Term) string {
		res := s.Check(t)
		s.Pop()
		return res
	}
	bound := func(upper bool) (*big.Rat, string) {
		a, b := big.NewRat(0, 1), big.NewRat(1, 1) // the bound lies in [a,b]
		two := big.NewRat(2, 1)
		for i := 0; i < 44; i++ {
			mid := new(big.Rat).Add(a, b)
			mid.Quo(mid, two)
			var q *Term
			if upper {
				q = ts.RCmp(OpRLt, ts.RealRat(mid), r) // some solution above mid?
			} else {
				q = ts.RCmp(OpRLt, r, ts.RealRat(mid))
			}
			switch chk(q) {
			case "sat":
				if upper {
					a = mid
				} else {
					b = mid
				}
			case "unsat":
				if upper {
					b = mid
				} else {
					a = mid
				}
			default:
				return nil, "solver unknown while bounding a real draw"
			}
		}
		cand := simplestBetween(a, b)
		var q *Term
		if upper {
			q = ts.RCmp(OpRLt, ts.RealRat(cand), r)
		} else {
			q = ts.RCmp(OpRLt, r, ts.RealRat(cand))
		}
		if chk(q) != "unsat" {
			// keep the sound side of the bisection interval
			if upper {
				return b, ""
			}
			return a, ""
		}
		return cand, ""
	}
	hi, why = bound(true)
	if why != "" {
		return nil, nil, why
	}
	lo, why = bound(false)
	return lo, hi, why
}

// simplestBetween: the rational with the smallest denominator in [a,b] (Stern-Brocot).
func simplestBetween(a, b *big.Rat) *big.Rat {
	if a.Cmp(b) >= 0 {
		return new(big.Rat).Set(a)
	}
	fl := new(big.Int).Div(a.Num(), a.Denom()) // a >= 0 here
	flr := new(big.Rat).SetInt(fl)
	if flr.Cmp(a) == 0 {
		return flr
	}
	next := new(big.Rat).Add(flr, big.NewRat(1, 1))
	if next.Cmp(b) <= 0 {
		return next
	}
	// a = fl + fa, b = fl + fb with 0 < fa < fb < 1: recurse on the reciprocals
	fa := new(big.Rat).Sub(a, flr)
	fb := new(big.Rat).Sub(b, flr)
	inner := simplestBetween(new(big.Rat).Inv(fb), new(big.Rat).Inv(fa))
	return new(big.Rat).Add(flr, new(big.Rat).Inv(inner))
}

func (ps *pathState) randExp(recv value) value {
	if ps.seededRand {
		r := ps.genDraw(recv, "exp", nil, sortReal)
		ps.addPC(ps.ts.RCmp(OpRLt, ps.ts.RealF(0), r))
		return mkval(types.Float64, r)
	}
	r := ps.newInput(fmt.Sprintf("randexp%d", ps.nrand), "randf", sortReal)
	ps.nrand++
	ps.addPC(ps.ts.RCmp(OpRLt, ps.ts.RealF(0), r))
	return mkval(types.Float64, r)
}

// ---- sorting ----

// insertionSort is a stable sort driven by a (possibly forking) less.
func (ps *pathState) insertionSort(n int, less func(a, b int) bool, swap func(a, b int)) {
	for i := 1; i < n; i++ {
		for j := i; j > 0 && less(j, j-1); j-- {
			swap(j, j-1)
		}
	}
}

func extSortSlice(fr *frame, args []value) value {
	x := args[0].(iface)
	s, ok := x.v.([]value)
	if !ok {
		panic(pathEnd{StUnsupported, "sort.Slice on non-slice"})
	}
	less := args[1]
	// less takes indices into the live slice, so sort by adjacent swaps
	fr.i.ps.insertionSort(len(s), func(a, b int) bool {
		r := call(fr.i, fr, token.NoPos, less, []value{a, b})
		return fr.i.ps.decideVal(r)
	}, func(a, b int) { s[a], s[b] = s[b], s[a] })
	return nil
}

// ---- byte search ----

func (ps *pathState) indexByte(e []value, c value) value {
	for i, b := range e {
		eq := binop(ps, token.EQL, types.Typ[types.Uint8], b, c)
		if ps.decideVal(eq) {
			return i
		}
	}
	return -1
}

func (ps *pathState) countByte(e []value, c value) value {
	n := 0
	for _, b := range e {
		eq := binop(ps, token.EQL, types.Typ[types.Uint8], b, c)
		if ps.decideVal(eq) {
			n++
		}
	}
	return n
}

func (ps *pathState) strCompare(x, y value) value {
	if ps.decideVal(ps.strBinop(token.EQL, x, y)) {
		return 0
	}
	if ps.decideVal(ps.strBinop(token.LSS, x, y)) {
		return -1
	}
	return 1
}

func extStringsIndex(fr *frame, args []value) value {
	s, okS := args[0].(string)
	sub, okT := args[1].(string)
	if okS && okT {
		return strings.Index(s, sub)
	}
	// symbolic: naive search with decisions
	ps := fr.i.ps
	a, b := strElems(args[0]), strElems(args[1])
	for i := 0; i+len(b) <= len(a); i++ {
		if ps.decide(ps.strEqTerm(normStr(a[i:i+len(b)]), normStr(b))) {
			return i
		}
	}
	return -1
}

// ---- sync ----

func extWGAdd(fr *frame, args []value) value {
	ps := fr.i.ps
	s := ps.sched
	g := s.cur
	st := ps.wgOf(args[0].(*value))
	d := int(asInt64(args[1]))
	s.preempt(g)
	s.tick(g)
	st.n += d
	if st.n < 0 {
		panic(targetPanic{iface{types.Typ[types.String], "sync: negative WaitGroup counter"}})
	}
	if d < 0 {
		st.vc = st.vc.join(g.vc)
	}
	return nil
}

func extWGWait(fr *frame, args []value) value {
	ps := fr.i.ps
	s := ps.sched
	g := s.cur
	st := ps.wgOf(args[0].(*value))
	s.preempt(g)
	s.block(g, func() bool { return st.n == 0 }, "WaitGroup.Wait")
	g.vc = g.vc.join(st.vc)
	return nil
}

func extMuLock(fr *frame, args []value) value {
	ps := fr.i.ps
	s := ps.sched
	g := s.cur
	st := ps.muOf(args[0].(*value))
	s.preempt(g)
	s.block(g, func() bool { return !st.locked && st.readers == 0 }, "Mutex.Lock")
	st.locked = true
	g.vc = g.vc.join(st.vc)
	g.vc = g.vc.join(st.rvc)
	return nil
}

func extMuUnlock(fr *frame, args []value) value {
	ps := fr.i.ps
	s := ps.sched
	g := s.cur
	st := ps.muOf(args[0].(*value))
	if !st.locked {
		panic(targetPanic{iface{types.Typ[types.String], "sync: unlock of unlocked mutex"}})
	}
	s.tick(g)
	st.vc = st.vc.join(g.vc)
	st.locked = false
	s.preempt(g)
	return nil
}

func extMuRLock(fr *frame, args []value) value {
	ps := fr.i.ps
	s := ps.sched
	g := s.cur
	st := ps.muOf(args[0].(*value))
	s.preempt(g)
	s.block(g, func() bool { return !st.locked }, "RWMutex.RLock")
	st.readers++
	g.vc = g.vc.join(st.vc)
	return nil
}

func extMuRUnlock(fr *frame, args []value) value {
	ps := fr.i.ps
	s := ps.sched
	g := s.cur
	st := ps.muOf(args[0].(*value))
	s.tick(g)
	st.rvc = st.rvc.join(g.vc)
	st.readers--
	s.preempt(g)
	return nil
}

func atomicAdd(fr *frame, args []value) value {
	ps := fr.i.ps
	p := args[0].(*value)
	if p == nil {
		ps.nilDeref()
	}
	ps.sched.preempt(ps.sched.cur)
	*p = binop(ps, token.ADD, nil, *p, args[1])
	return *p
}

func atomicLoad(fr *frame, args []value) value {
	ps := fr.i.ps
	p := args[0].(*value)
	if p == nil {
		ps.nilDeref()
	}
	ps.sched.preempt(ps.sched.cur)
	return *p
}

func atomicStore(fr *frame, args []value) value {
	ps := fr.i.ps
	p := args[0].(*value)
	if p == nil {
		ps.nilDeref()
	}
	ps.sched.preempt(ps.sched.cur)
	*p = args[1]
	return nil
}

func atomicCAS(fr *frame, args []value) value {
	ps := fr.i.ps
	p := args[0].(*value)
	if p == nil {
		ps.nilDeref()
	}
	ps.sched.preempt(ps.sched.cur)
	if equals(ps, nil, *p, args[1]) {
		*p = args[2]
		return true
	}
	return false
}

var _ = sort.Strings


// elemInSet decides (forking on symbolic bytes) whether a string element is
// one of the ASCII characters of set.
func (ps *pathState) elemInSet(e value, set string) bool {
	switch b := e.(type) {
	case uint8:
		return strings.IndexByte(set, b) >= 0
	case ffElem:
		for i := 0; i < len(set); i++ {
			if strings.IndexByte(ffClassChars, set[i]) >= 0 {
				panic(pathEnd{StUnsupported, "float-text pseudo byte tested against a set containing float characters"})
			}
		}
		return false
	case sym:
		var cs []*Term
		for i := 0; i < len(set); i++ {
			if set[i] < 0x80 {
				cs = append(cs, ps.ts.Eq(b.t, ps.ts.BV(uint64(set[i]), 8)))
			}
		}
		return ps.decide(ps.ts.Or(cs...))
	}
	panic(pathEnd{StEngineError, fmt.Sprintf("elemInSet: %T", e)})
}

func (ps *pathState) trimElems(v value, set string, left, right bool) value {
	if s, ok := v.(string); ok {
		switch {
		case left && right:
			return strings.Trim(s, set)
		case left:
			return strings.TrimLeft(s, set)
		default:
			return strings.TrimRight(s, set)
		}
	}
	e := strElems(v)
	lo, hi := 0, len(e)
	if left {
		for lo < hi && ps.elemInSet(e[lo], set) {
			lo++
		}
	}
	if right {
		for hi > lo && ps.elemInSet(e[hi-1], set) {
			hi--
		}
	}
	return normStr(e[lo:hi])
}


// parseIntSym: ParseInt/Atoi of a string with symbolic bytes is a memoised
// nondeterministic pair (is-integer, value): an error for sure when a
// concrete byte is not a digit/sign/underscore/base prefix character.
func (ps *pathState) parseIntSym(fr *frame, s *symstr, k types.BasicKind) value {
	key := "pi:" + s.key()
	if v, ok := ps.memo[key]; ok {
		return v
	}
	zero := func() value {
		if k == types.Int {
			return int(0)
		}
		return int64(0)
	}
	errv := func() value { return fr.i.mkErrorStr("strconv.ParseInt: parsing: invalid syntax") }
	for _, e := range s.e {
		switch b := e.(type) {
		case uint8:
			if !strings.ContainsRune("0123456789+-_xXoObBabcdefABCDEF", rune(b)) {
				r := tuple{zero(), errv()}
				ps.memo[key] = r
				return r
			}
		case ffElem:
			panic(pathEnd{StUnsupported, "ParseInt of float text"})
		}
	}
	var r value
	if ps.choose('c', 2) == 1 {
		r = tuple{mkval(k, ps.newInput("parsedint", "env", bvSort(64))), iface{}}
	} else {
		r = tuple{zero(), errv()}
	}
	ps.memo[key] = r
	return r
}


// caseMap: strings.ToUpper / ToLower element-wise (symbolic bytes are ASCII by obligation).
func (ps *pathState) caseMap(v value, upper bool) value {
	if s, ok := v.(string); ok {
		if upper {
			return strings.ToUpper(s)
		}
		return strings.ToLower(s)
	}
	e := strElems(v)
	out := make([]value, len(e))
	ts := ps.ts
	for i, x := range e {
		switch b := x.(type) {
		case uint8:
			if b >= 0x80 {
				panic(pathEnd{StUnsupported, "case mapping of a non-ASCII byte next to symbolic bytes"})
			}
			if upper && b >= 'a' && b <= 'z' {
				b -= 32
			} else if !upper && b >= 'A' && b <= 'Z' {
				b += 32
			}
			out[i] = b
		case sym:
			ps.requireASCII(b, "strings.ToUpper/ToLower")
			lo, hi, d := uint64('a'), uint64('z'), uint64(0xe0) // -32 mod 256
			if !upper {
				lo, hi, d = 'A', 'Z', 32
			}
			in := ts.And(ts.BvCmp(OpBvUle, ts.BV(lo, 8), b.t), ts.BvCmp(OpBvUle, b.t, ts.BV(hi, 8)))
			out[i] = mkval(types.Uint8, ts.Ite(in, ts.BvBin(OpBvAdd, b.t, ts.BV(d, 8)), b.t))
		case ffElem:
			// a text in 'f' format has no letter: case mapping leaves it unchanged
			if b.f != 'f' {
				panic(pathEnd{StUnsupported, "case mapping of float text in exponent format"})
			}
			out[i] = b
		default:
			panic(pathEnd{StUnsupported, "case mapping of " + fmt.Sprintf("%T", x)})
		}
	}
	return normStr(out)
}


// pathWeight (probability mode): the weight of a path is the volume of the
// product of the per-draw projections of its path condition (each projection
// is a series of solver queries) divided by the product of the ranges.
func (ps *pathState) pathWeight() (*big.Rat, string) {
	s := ps.w.solver
	ts := ps.ts
	vol := big.NewRat(1, 1)
	var inProj []*Term
	for i, r := range ps.randVars {
		if _, isReal := ps.randRanges[i].(realDraw); isReal {
			lo, hi, why := ps.realHull(r)
			if why != "" {
				return nil, why
			}
			if hi.Cmp(lo) <= 0 {
				return nil, "real draw confined to a set of measure zero"
			}
			vol.Mul(vol, new(big.Rat).Sub(hi, lo))
			continue
		}
		kv, ok := ps.randRanges[i].(int)
		if !ok {
			if k64, ok2 := ps.randRanges[i].(int64); ok2 {
				kv = int(k64)
			} else if k32, ok3 := ps.randRanges[i].(int32); ok3 {
				kv = int(k32)
			} else {
				return nil, "symbolic range of a random draw"
			}
		}
		if kv > 64 {
			return nil, "range of a random draw too large to enumerate"
		}
		w := int(r.sort.W)
		cnt := 0
		var alts []*Term
		for v := 0; v < kv; v++ {
			eq := ts.Eq(r, ts.BV(uint64(v), w))
			res := s.Check(eq)
			s.Pop()
			switch res {
			case "sat":
				cnt++
				alts = append(alts, eq)
			case "unsat":
			default:
				return nil, "solver unknown while projecting a random draw"
			}
		}
		if cnt == 0 {
			return nil, "infeasible path"
		}
		inProj = append(inProj, ts.Or(alts...))
		vol.Mul(vol, big.NewRat(int64(cnt), int64(kv)))
	}
	// box property: the product of the projections contains the path's solution
	// set, so each weight is an upper bound; the check tool verifies that the
	// weights of all paths add up to exactly 1, which holds only if every path's
	// solution set IS the product of its projections
	_ = inProj
	return vol, ""
}


func (ps *pathState) processHash(key string) value {
	if v, ok := ps.memo[key]; ok {
		return v
	}
	if ps.stubs != nil {
		ps.stubs["hash/maphash (per-process seed: arbitrary value per content)"] = true
	}
	hv := ps.newInput(key, "env", bvSort(64))
	if ps.taxHashBits > 0 && ps.taxHashBits < 64 {
		ps.addPC(ps.ts.BvCmp(OpBvUlt, hv, ps.ts.BV(uint64(1)<<uint(ps.taxHashBits), 64)))
	}
	v := mkval(types.Uint64, hv)
	ps.memo[key] = v
	return v
}
