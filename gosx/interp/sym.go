package interp

// Symbolic scalars: a sym is a Go basic kind plus an SMT term.

import (
	"fmt"
	"go/token"
	"go/types"
	"math"
)

type sym struct {
	k types.BasicKind
	t *Term
}

func isSym(v value) bool {
	_, ok := v.(sym)
	return ok
}

func kindBits(k types.BasicKind) (w int, signed bool) {
	switch k {
	case types.Int, types.Int64:
		return 64, true
	case types.Int8:
		return 8, true
	case types.Int16:
		return 16, true
	case types.Int32:
		return 32, true
	case types.Uint, types.Uint64, types.Uintptr:
		return 64, false
	case types.Uint8:
		return 8, false
	case types.Uint16:
		return 16, false
	case types.Uint32:
		return 32, false
	}
	return 0, false
}

func kindOfValue(v value) types.BasicKind {
	switch v := v.(type) {
	case sym:
		return v.k
	case bool:
		return types.Bool
	case int:
		return types.Int
	case int8:
		return types.Int8
	case int16:
		return types.Int16
	case int32:
		return types.Int32
	case int64:
		return types.Int64
	case uint:
		return types.Uint
	case uint8:
		return types.Uint8
	case uint16:
		return types.Uint16
	case uint32:
		return types.Uint32
	case uint64:
		return types.Uint64
	case uintptr:
		return types.Uintptr
	case float32:
		return types.Float32
	case float64:
		return types.Float64
	}
	return types.Invalid
}

// termOf lifts a scalar value to a term. For float64 constants, fsort selects
// the encoding (SReal or SFP).
func (ps *pathState) termOf(v value, fsort SortKind) *Term {
	ts := ps.ts
	switch v := v.(type) {
	case sym:
		return v.t
	case bool:
		return ts.Bool(v)
	case int:
		return ts.BV(uint64(v), 64)
	case int8:
		return ts.BV(uint64(v), 8)
	case int16:
		return ts.BV(uint64(v), 16)
	case int32:
		return ts.BV(uint64(v), 32)
	case int64:
		return ts.BV(uint64(v), 64)
	case uint:
		return ts.BV(uint64(v), 64)
	case uint8:
		return ts.BV(uint64(v), 8)
	case uint16:
		return ts.BV(uint64(v), 16)
	case uint32:
		return ts.BV(uint64(v), 32)
	case uint64:
		return ts.BV(v, 64)
	case uintptr:
		return ts.BV(uint64(v), 64)
	case float64:
		if fsort == SFP {
			return ts.FP(v)
		}
		if math.IsNaN(v) || math.IsInf(v, 0) {
			panic(pathEnd{StUnsupported, "non-finite float constant meets a real-encoded symbolic float"})
		}
		return ts.RealF(v)
	}
	panic(pathEnd{StUnsupported, fmt.Sprintf("termOf: %T", v)})
}

// mkval wraps a term as a value of kind k, collapsing constants to native Go values.
func mkval(k types.BasicKind, t *Term) value {
	if t.IsConst() {
		switch k {
		case types.Bool:
			return t.c == 1
		case types.Int:
			return int(int64(t.c))
		case types.Int8:
			return int8(t.c)
		case types.Int16:
			return int16(t.c)
		case types.Int32:
			return int32(t.c)
		case types.Int64:
			return int64(t.c)
		case types.Uint:
			return uint(t.c)
		case types.Uint8:
			return uint8(t.c)
		case types.Uint16:
			return uint16(t.c)
		case types.Uint32:
			return uint32(t.c)
		case types.Uint64:
			return uint64(t.c)
		case types.Uintptr:
			return uintptr(t.c)
		case types.Float64:
			if t.sort.K == SFP {
				return math.Float64frombits(t.c)
			}
			f, _ := t.r.Float64()
			return f
		}
	}
	return sym{k, t}
}

func floatSortOf(x, y value) SortKind {
	if s, ok := x.(sym); ok && s.k == types.Float64 {
		return s.t.sort.K
	}
	if s, ok := y.(sym); ok && s.k == types.Float64 {
		return s.t.sort.K
	}
	return SReal
}

func (ps *pathState) symBinop(op token.Token, x, y value) value {
	ts := ps.ts
	k := kindOfValue(x)
	if k == types.Invalid {
		panic(pathEnd{StUnsupported, fmt.Sprintf("symbolic binop %s on %T,%T", op, x, y)})
	}
	if k == types.Bool {
		a, b := ps.termOf(x, 0), ps.termOf(y, 0)
		switch op {
		case token.EQL:
			return mkval(types.Bool, ts.Eq(a, b))
		case token.NEQ:
			return mkval(types.Bool, ts.Not(ts.Eq(a, b)))
		case token.AND, token.LAND:
			return mkval(types.Bool, ts.And(a, b))
		case token.OR, token.LOR:
			return mkval(types.Bool, ts.Or(a, b))
		}
		panic(pathEnd{StUnsupported, "bool binop " + op.String()})
	}
	if k == types.Float64 {
		fs := floatSortOf(x, y)
		a, b := ps.termOf(x, fs), ps.termOf(y, fs)
		if a.sort != b.sort {
			panic(pathEnd{StUnsupported, "mixing FP-precise and real-encoded floats"})
		}
		if fs == SFP {
			switch op {
			case token.ADD:
				return mkval(k, ts.FBin(OpFAdd, a, b))
			case token.SUB:
				return mkval(k, ts.FBin(OpFSub, a, b))
			case token.MUL:
				return mkval(k, ts.FBin(OpFMul, a, b))
			case token.QUO:
				return mkval(k, ts.FBin(OpFDiv, a, b))
			case token.LSS:
				return mkval(types.Bool, ts.FCmp(OpFLt, a, b))
			case token.LEQ:
				return mkval(types.Bool, ts.FCmp(OpFLe, a, b))
			case token.GTR:
				return mkval(types.Bool, ts.FCmp(OpFLt, b, a))
			case token.GEQ:
				return mkval(types.Bool, ts.FCmp(OpFLe, b, a))
			case token.EQL:
				return mkval(types.Bool, ts.FCmp(OpFEq, a, b))
			case token.NEQ:
				return mkval(types.Bool, ts.Not(ts.FCmp(OpFEq, a, b)))
			}
		} else {
			switch op {
			case token.ADD:
				return mkval(k, ts.RAdd(a, b))
			case token.SUB:
				return mkval(k, ts.RSub(a, b))
			case token.MUL:
				return mkval(k, ts.RMul(a, b))
			case token.QUO:
				if b.IsConst() && b.r.Sign() == 0 {
					panic(pathEnd{StUnsupported, "real-encoded float division by constant zero"})
				}
				return mkval(k, ts.RDiv(a, b))
			case token.LSS:
				return mkval(types.Bool, ts.RCmp(OpRLt, a, b))
			case token.LEQ:
				return mkval(types.Bool, ts.RCmp(OpRLe, a, b))
			case token.GTR:
				return mkval(types.Bool, ts.RCmp(OpRLt, b, a))
			case token.GEQ:
				return mkval(types.Bool, ts.RCmp(OpRLe, b, a))
			case token.EQL:
				return mkval(types.Bool, ts.Eq(a, b))
			case token.NEQ:
				return mkval(types.Bool, ts.Not(ts.Eq(a, b)))
			}
		}
		panic(pathEnd{StUnsupported, "float binop " + op.String()})
	}
	w, signed := kindBits(k)
	if w == 0 {
		panic(pathEnd{StUnsupported, fmt.Sprintf("symbolic binop on kind %v", k)})
	}
	a := ps.termOf(x, 0)
	if op == token.SHL || op == token.SHR {
		// shift count: any integer type; negative signed counts panic
		ky := kindOfValue(y)
		wy, sy := kindBits(ky)
		b := ps.termOf(y, 0)
		if sy {
			neg := ts.BvCmp(OpBvSlt, b, ts.BV(0, wy))
			if ps.decide(neg) {
				ps.targetRuntimePanic("negative shift amount")
			}
		}
		var amt *Term
		if wy <= w {
			amt = ts.Zext(b, w)
		} else {
			big := ts.BvCmp(OpBvUle, ts.BV(uint64(w), wy), b)
			amt = ts.Ite(big, ts.BV(uint64(w), w), ts.Extract(b, w-1, 0))
		}
		switch {
		case op == token.SHL:
			return mkval(k, ts.BvBin(OpBvShl, a, amt))
		case signed:
			return mkval(k, ts.BvBin(OpBvAshr, a, amt))
		default:
			return mkval(k, ts.BvBin(OpBvLshr, a, amt))
		}
	}
	b := ps.termOf(y, 0)
	if a.sort != b.sort {
		panic(pathEnd{StEngineError, fmt.Sprintf("binop %s: operand sorts differ: %v (%T) vs %v (%T)", op, a.sort, x, b.sort, y)})
	}
	switch op {
	case token.ADD:
		return mkval(k, ts.BvBin(OpBvAdd, a, b))
	case token.SUB:
		return mkval(k, ts.BvBin(OpBvSub, a, b))
	case token.MUL:
		return mkval(k, ts.BvBin(OpBvMul, a, b))
	case token.QUO, token.REM:
		if ps.decide(ts.Eq(b, ts.BV(0, w))) {
			ps.targetRuntimePanic("integer divide by zero")
		}
		var o Op
		switch {
		case op == token.QUO && signed:
			o = OpBvSdiv
		case op == token.QUO:
			o = OpBvUdiv
		case signed:
			o = OpBvSrem
		default:
			o = OpBvUrem
		}
		return mkval(k, ts.BvBin(o, a, b))
	case token.AND:
		return mkval(k, ts.BvBin(OpBvAnd, a, b))
	case token.OR:
		return mkval(k, ts.BvBin(OpBvOr, a, b))
	case token.XOR:
		return mkval(k, ts.BvBin(OpBvXor, a, b))
	case token.AND_NOT:
		return mkval(k, ts.BvBin(OpBvAnd, a, ts.BvNot(b)))
	case token.EQL:
		return mkval(types.Bool, ts.Eq(a, b))
	case token.NEQ:
		return mkval(types.Bool, ts.Not(ts.Eq(a, b)))
	}
	lt, le := OpBvUlt, OpBvUle
	if signed {
		lt, le = OpBvSlt, OpBvSle
	}
	switch op {
	case token.LSS:
		return mkval(types.Bool, ts.BvCmp(lt, a, b))
	case token.LEQ:
		return mkval(types.Bool, ts.BvCmp(le, a, b))
	case token.GTR:
		return mkval(types.Bool, ts.BvCmp(lt, b, a))
	case token.GEQ:
		return mkval(types.Bool, ts.BvCmp(le, b, a))
	}
	panic(pathEnd{StUnsupported, "int binop " + op.String()})
}

func (ps *pathState) symUnop(op token.Token, x sym) value {
	ts := ps.ts
	switch op {
	case token.NOT:
		return mkval(types.Bool, ts.Not(x.t))
	case token.SUB:
		if x.k == types.Float64 {
			if x.t.sort.K == SFP {
				return mkval(x.k, ts.FNeg(x.t))
			}
			return mkval(x.k, ts.RNeg(x.t))
		}
		return mkval(x.k, ts.BvNeg(x.t))
	case token.XOR:
		return mkval(x.k, ts.BvNot(x.t))
	}
	panic(pathEnd{StUnsupported, "symbolic unop " + op.String()})
}

// symConv converts symbolic scalar x to basic kind dst.
func (ps *pathState) symConv(dst types.BasicKind, x sym) value {
	ts := ps.ts
	if dst == x.k {
		return x
	}
	sw, ssigned := kindBits(x.k)
	dw, dsigned := kindBits(dst)
	switch {
	case sw > 0 && dw > 0:
		var t *Term
		switch {
		case dw <= sw:
			t = ts.Extract(x.t, dw-1, 0)
		case ssigned:
			t = ts.Sext(x.t, dw)
		default:
			t = ts.Zext(x.t, dw)
		}
		return mkval(dst, t)
	case sw > 0 && dst == types.Float64:
		if ps.floatMode == 1 {
			return mkval(dst, ts.FFromBV(x.t, ssigned))
		}
		return mkval(dst, ts.ToReal(ts.Bv2Int(x.t, ssigned)))
	case x.k == types.Float64 && dw > 0:
		if x.t.sort.K == SFP {
			return mkval(dst, ts.FToBV(x.t, dw, dsigned))
		}
		if ps.probMode {
			// exact truncation toward zero: v <= x < v+1 (x >= 0), v-1 < x <= v (x < 0)
			key := fmt.Sprintf("f2i%d:%d", dw, x.t.id)
			if v, ok := ps.memo[key]; ok {
				return v
			}
			v := ts.FreshVar("trunc", bvSort(dw))
			vr := ts.ToReal(ts.Bv2Int(v, dsigned))
			one := ts.RealF(1)
			nonneg := ts.RCmp(OpRLe, ts.RealF(0), x.t)
			ps.addPC(ts.Ite(nonneg,
				ts.And(ts.RCmp(OpRLe, vr, x.t), ts.RCmp(OpRLt, x.t, ts.RAdd(vr, one))),
				ts.And(ts.RCmp(OpRLt, ts.RSub(vr, one), x.t), ts.RCmp(OpRLe, x.t, vr))))
			res := mkval(dst, v)
			ps.memo[key] = res
			return res
		}
		// real -> int: truncation toward zero, uninterpreted beyond congruence
		return mkval(dst, ts.UF(fmt.Sprintf("f2i%d", dw), bvSort(dw), x.t))
	case x.k == types.Float64 && dst == types.Float32:
		panic(pathEnd{StUnsupported, "float64->float32 on symbolic value"})
	}
	panic(pathEnd{StUnsupported, fmt.Sprintf("symbolic conversion %v -> %v", x.k, dst)})
}

// targetRuntimePanic raises a Go run-time panic in the target program.
func (ps *pathState) targetRuntimePanic(msg string) {
	panic(targetPanic{runtimeErr{msg}})
}

// runtimeErr is the payload of a target run-time panic (index out of range,
// nil dereference, ...).
type runtimeErr struct{ msg string }

func (r runtimeErr) String() string { return "runtime error: " + r.msg }

// symMinMax implements the min/max builtins and math.Max/Min on symbolic operands.
func (ps *pathState) symMinMax(isMax bool, x, y value) value {
	k := kindOfValue(x)
	var lt value
	if isMax {
		lt = ps.symBinop(token.LSS, x, y) // x<y ? y : x
	} else {
		lt = ps.symBinop(token.LSS, y, x) // y<x ? y : x
	}
	fs := floatSortOf(x, y)
	a, b := ps.termOf(x, fs), ps.termOf(y, fs)
	c := ps.termOf(lt, 0)
	return mkval(k, ps.ts.Ite(c, b, a))
}
