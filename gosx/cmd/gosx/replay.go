package main

// Native replay: the harness files are compiled against /repo with
// `go test -c -overlay` and run with the solver's assignment.

import (
	"bytes"
	"context"
	"crypto/sha1"
	"encoding/json"
	"fmt"
	"os"
	"os/exec"
	"path/filepath"
	"regexp"
	"sort"
	"strconv"
	"strings"
	"time"

	"gosx/interp"
)

type ReplayFile struct {
	Property string             `json:"property,omitempty"`
	Harness  string             `json:"harness"`
	InCmd    bool               `json:"in_cmd,omitempty"`
	Inputs   []*interp.InputRec `json:"inputs"`
	Params   map[string]int     `json:"params"`
	Expect   string             `json:"expect"` // ok | assert | panic | exit | hang | deadlock | race
	Label    string             `json:"label,omitempty"`
	Msg      string             `json:"msg,omitempty"`
	Trace    []interp.Decision  `json:"decisions,omitempty"`
	Observe  []string           `json:"observe,omitempty"`
	Race     bool               `json:"race,omitempty"`
	Dist     map[string]string  `json:"distribution,omitempty"` // distribution violations: outcome -> exact probability
	Class    string             `json:"class,omitempty"`
	NExpect  int                `json:"expected_outcomes,omitempty"`
}

type NativeResult struct {
	Status  string
	Label   string
	Msg     string
	Observe []string
	Known   []string
	Debug   []string
	Dist    map[string]int
	Raw     string
}

var reHarness = regexp.MustCompile(`(?m)^func (H_\w+)\(\)`)

type nativeBuilder struct {
	dir     string
	bins    map[string]string // key: pkg|race -> binary
	overlay string
}

func newNativeBuilder() (*nativeBuilder, error) {
	dir, err := os.MkdirTemp("", "gosx-native-")
	if err != nil {
		return nil, err
	}
	return &nativeBuilder{dir: dir, bins: map[string]string{}}, nil
}

func (nb *nativeBuilder) Close() { os.RemoveAll(nb.dir) }

const testDriver = `package %s

import (
	"fmt"
	"math/rand"
	"os"
	"strconv"
	"strings"
	"testing"
)

var sxRegistry = map[string]func(){
%s}

func sxRunOne(path string) {
	h, err := sxLoad(path)
	if err != nil {
		fmt.Printf("SXRESULT file=%%s status=loaderror msg=%%v\n", path, err)
		return
	}
	f := sxRegistry[h]
	if f == nil {
		fmt.Printf("SXRESULT file=%%s status=noharness msg=%%s\n", path, h)
		return
	}
	status, label := "ok", ""
	func() {
		defer func() {
			if r := recover(); r != nil {
				switch r := r.(type) {
				case sxSkip:
					status = "skip"
				case sxViolation:
					status, label = "assert", r.Label
				default:
					status, label = "panic", strings.ReplaceAll(fmt.Sprint(r), "\n", " ")
				}
			}
		}()
		f()
	}()
	for _, o := range sxTrace {
		fmt.Printf("SXOBS %%s\n", strings.ReplaceAll(o, "\n", "\\n"))
	}
	for _, o := range sxDbg {
		fmt.Printf("SXDBG %%s\n", strings.ReplaceAll(o, "\n", "\\n"))
	}
	for _, k := range sxKnownHit {
		fmt.Printf("SXKNOWN %%s\n", k)
	}
	fmt.Printf("SXRESULT file=%%s status=%%s label=%%s\n", path, status, label)
	os.Stdout.Sync()
}

func TestSxReplay(t *testing.T) {
	rep, _ := strconv.Atoi(os.Getenv("SX_REPEAT"))
	for _, p := range strings.Split(os.Getenv("SX_REPLAY"), ",") {
		if p == "" {
			continue
		}
		fmt.Printf("SXBEGIN file=%%s\n", p)
		if rep == 0 {
			sxRunOne(p)
			continue
		}
		fixedSeed := rep < 0
		if fixedSeed {
			rep = -rep
		}
		// distribution replay: run the harness under many seeds and count the outcomes
		counts := map[string]int{}
		for r := 0; r < rep; r++ {
			h, err := sxLoad(p)
			if err != nil || sxRegistry[h] == nil {
				break
			}
			if fixedSeed {
				rand.Seed(12345) // determinism replay: same seed, same input, repeated
			} else {
				rand.Seed(int64(r)*7919 + 1)
			}
			func() {
				defer func() { recover() }()
				sxRegistry[h]()
			}()
			for _, o := range sxTrace {
				if strings.HasPrefix(o, "outcome=") {
					counts[o[len("outcome="):]]++
				}
			}
		}
		for k, v := range counts {
			fmt.Printf("SXDIST %%d %%s\n", v, strings.ReplaceAll(k, "\n", "\\n"))
		}
		fmt.Printf("SXRESULT file=%%s status=ok label=\n", p)
	}
}
`

func (nb *nativeBuilder) binary(inCmd, race bool) (string, error) {
	key := fmt.Sprintf("%v|%v", inCmd, race)
	if b, ok := nb.bins[key]; ok {
		return b, nil
	}
	pkgDir, pkgName, glob, prefix := "zz_vh", "zzvh", harnessBase()+"/harness/*.go", ""
	if inCmd {
		pkgDir, pkgName, glob, prefix = "cmd", "cmd", harnessBase()+"/harness_cmd/*.go", "zz_vh_"
	}
	files, _ := filepath.Glob(glob)
	ov := map[string]string{}
	var names []string
	if inCmd {
		if b, err := os.ReadFile(harnessBase()+"/harness/sx_prelude.go"); err == nil {
			gen := filepath.Join(nb.dir, "sx_prelude_cmd.go")
			if err := os.WriteFile(gen, []byte(strings.Replace(string(b), "package zzvh", "package cmd", 1)), 0o644); err != nil {
				return "", err
			}
			ov[filepath.Join(repoDir, pkgDir, prefix+"sx_prelude.go")] = gen
		}
	}
	for _, f := range files {
		if inCmd && filepath.Base(f) == "sx_prelude.go" {
			continue
		}
		ov[filepath.Join(repoDir, pkgDir, prefix+filepath.Base(f))] = f
		b, err := os.ReadFile(f)
		if err != nil {
			return "", err
		}
		for _, m := range reHarness.FindAllSubmatch(b, -1) {
			names = append(names, string(m[1]))
		}
	}
	sort.Strings(names)
	var reg strings.Builder
	for _, n := range names {
		fmt.Fprintf(&reg, "\t%q: %s,\n", n, n)
	}
	drv := filepath.Join(nb.dir, fmt.Sprintf("driver_%s_test.go", pkgName))
	if err := os.WriteFile(drv, []byte(fmt.Sprintf(testDriver, pkgName, reg.String())), 0o644); err != nil {
		return "", err
	}
	ov[filepath.Join(repoDir, pkgDir, "zz_vh_driver_test.go")] = drv
	ovb, _ := json.Marshal(map[string]interface{}{"Replace": ov})
	ovf := filepath.Join(nb.dir, fmt.Sprintf("overlay_%s.json", pkgName))
	if err := os.WriteFile(ovf, ovb, 0o644); err != nil {
		return "", err
	}
	bin := filepath.Join(nb.dir, fmt.Sprintf("replay_%s_%v.test", pkgName, race))
	args := []string{"test", "-c", "-vet=off", "-overlay", ovf, "-o", bin}
	if race {
		args = append(args, "-race")
	}
	args = append(args, "./"+pkgDir)
	cmd := exec.Command("go", args...)
	cmd.Dir = repoDir
	cmd.Env = append(os.Environ(), "GOFLAGS=-mod=mod", "GOPROXY=off", "GOSUMDB=off", "GOTOOLCHAIN=local")
	out, err := cmd.CombinedOutput()
	if err != nil {
		return "", fmt.Errorf("native build failed: %v\n%s", err, out)
	}
	nb.bins[key] = bin
	return bin, nil
}

// run executes the replay files in one process and returns a result per file.
func (nb *nativeBuilder) run(files []string, inCmd, race bool, timeout time.Duration) (map[string]*NativeResult, error) {
	return nb.runRepeat(files, inCmd, race, timeout, 0)
}

func (nb *nativeBuilder) runRepeat(files []string, inCmd, race bool, timeout time.Duration, repeat int) (map[string]*NativeResult, error) {
	bin, err := nb.binary(inCmd, race)
	if err != nil {
		return nil, err
	}
	ctx, cancel := context.WithTimeout(context.Background(), timeout+5*time.Second)
	defer cancel()
	cmd := exec.CommandContext(ctx, bin, "-test.run", "^TestSxReplay$", "-test.timeout", timeout.String(), "-test.count=1")
	cmd.Dir = nb.dir
	cmd.Env = append(os.Environ(), "SX_REPLAY="+strings.Join(files, ","), "SX_REPEAT="+strconv.Itoa(repeat))
	var buf bytes.Buffer
	cmd.Stdout = &buf
	cmd.Stderr = &buf
	runErr := cmd.Run()
	out := buf.String()
	res := map[string]*NativeResult{}
	var cur *NativeResult
	curFile := ""
	for _, line := range strings.Split(out, "\n") {
		// the code under test may write to stderr without a final newline
		// ("...\r"): markers can start in the middle of a line
		for _, mk := range []string{"SXBEGIN file=", "SXOBS ", "SXDBG ", "SXDIST ", "SXKNOWN ", "SXRESULT "} {
			if i := strings.Index(line, mk); i > 0 {
				line = line[i:]
				break
			}
		}
		switch {
		case strings.HasPrefix(line, "SXBEGIN file="):
			curFile = strings.TrimPrefix(line, "SXBEGIN file=")
			cur = &NativeResult{Status: "crash"}
			res[curFile] = cur
		case strings.HasPrefix(line, "SXOBS ") && cur != nil:
			cur.Observe = append(cur.Observe, strings.TrimPrefix(line, "SXOBS "))
		case strings.HasPrefix(line, "SXDIST ") && cur != nil:
			f := strings.SplitN(strings.TrimPrefix(line, "SXDIST "), " ", 2)
			if len(f) == 2 {
				if cur.Dist == nil {
					cur.Dist = map[string]int{}
				}
				n, _ := strconv.Atoi(f[0])
				cur.Dist[f[1]] = n
			}
		case strings.HasPrefix(line, "SXDBG ") && cur != nil:
			cur.Debug = append(cur.Debug, strings.TrimPrefix(line, "SXDBG "))
		case strings.HasPrefix(line, "SXKNOWN ") && cur != nil:
			cur.Known = append(cur.Known, strings.TrimPrefix(line, "SXKNOWN "))
		case strings.HasPrefix(line, "SXRESULT ") && cur != nil:
			f := strings.Fields(line)
			for _, kv := range f[1:] {
				if strings.HasPrefix(kv, "status=") {
					cur.Status = strings.TrimPrefix(kv, "status=")
				}
			}
			if i := strings.Index(line, " label="); i >= 0 {
				cur.Label = line[i+7:]
			}
			cur = nil
		}
	}
	// the file that was running when the process died
	if cur != nil {
		cur.Raw = tail(out, 40)
		switch {
		case strings.Contains(out, "test timed out") || ctx.Err() != nil:
			cur.Status = "hang"
		case strings.Contains(out, "WARNING: DATA RACE"):
			cur.Status = "race"
		case strings.Contains(out, "all goroutines are asleep"):
			cur.Status = "deadlock"
		case strings.Contains(out, "panic:") || strings.Contains(out, "fatal error:"):
			cur.Status = "panic"
			cur.Msg = firstMatchLine(out, "panic:", "fatal error:")
		case runErr != nil:
			cur.Status = "exit"
			cur.Msg = runErr.Error()
		}
	}
	if race && strings.Contains(out, "WARNING: DATA RACE") {
		for _, r := range res {
			if r.Status == "ok" || r.Status == "crash" {
				r.Status = "race"
				r.Raw = tail(out, 60)
			}
		}
	}
	return res, nil
}

func tail(s string, n int) string {
	ls := strings.Split(s, "\n")
	if len(ls) > n {
		ls = ls[len(ls)-n:]
	}
	return strings.Join(ls, "\n")
}

func firstMatchLine(s string, pats ...string) string {
	for _, l := range strings.Split(s, "\n") {
		for _, p := range pats {
			if strings.Contains(l, p) {
				return l
			}
		}
	}
	return ""
}

func writeReplay(dir string, rf *ReplayFile) (string, error) {
	os.MkdirAll(dir, 0o755)
	b, err := json.MarshalIndent(rf, "", " ")
	if err != nil {
		return "", err
	}
	h := sha1.Sum(b)
	name := fmt.Sprintf("%s-%s-%x.json", rf.Property, rf.Harness, h[:5])
	if rf.Property == "" {
		name = fmt.Sprintf("%s-%x.json", rf.Harness, h[:5])
	}
	p := filepath.Join(dir, name)
	return p, os.WriteFile(p, b, 0o644)
}

func statusExpect(st interp.PathStatus) string {
	switch st {
	case interp.StOK:
		return "ok"
	case interp.StViolation:
		return "assert"
	case interp.StPanic:
		return "panic"
	case interp.StExit:
		return "exit"
	case interp.StHang:
		return "hang"
	case interp.StDeadlock:
		return "deadlock"
	case interp.StRace:
		return "race"
	}
	return st.String()
}

// reproduced decides whether the native outcome confirms the expected one.
func reproduced(rf *ReplayFile, nr *NativeResult) bool {
	if nr == nil {
		return false
	}
	switch rf.Expect {
	case "ok":
		return nr.Status == "ok"
	case "assert":
		return nr.Status == "assert" && nr.Label == rf.Label
	case "panic":
		return nr.Status == "panic"
	case "exit":
		return nr.Status == "exit"
	case "hang", "deadlock":
		return nr.Status == "hang" || nr.Status == "deadlock"
	case "race":
		return nr.Status == "race"
	}
	return false
}

func cmdReplay(args []string) int {
	if len(args) < 1 {
		fmt.Fprintln(os.Stderr, "usage: gosx replay <file.json>")
		return 2
	}
	b, err := os.ReadFile(args[0])
	if err != nil {
		fmt.Fprintln(os.Stderr, err)
		return 2
	}
	var rf ReplayFile
	if err := json.Unmarshal(b, &rf); err != nil {
		fmt.Fprintln(os.Stderr, err)
		return 2
	}
	nb, err := newNativeBuilder()
	if err != nil {
		fmt.Fprintln(os.Stderr, err)
		return 3
	}
	defer nb.Close()
	abs, _ := filepath.Abs(args[0])
	if rf.Expect == "distribution" {
		ok, detail := confirmDistribution(nb, abs, &rf)
		fmt.Printf("exact distribution (engine): %v\n", rf.Dist)
		fmt.Println("native:", detail)
		if ok {
			fmt.Printf("REPRODUCED property=%s\n", rf.Property)
			return 1
		}
		fmt.Println("NOT REPRODUCED")
		return 0
	}
	res, err := nb.run([]string{abs}, rf.InCmd, rf.Race, 30*time.Second)
	if err != nil {
		fmt.Fprintln(os.Stderr, err)
		return 3
	}
	nr := res[abs]
	if nr == nil {
		fmt.Println("no result from native run")
		return 3
	}
	fmt.Printf("native: status=%s label=%q msg=%q (expected %s %q)\n", nr.Status, nr.Label, nr.Msg, rf.Expect, rf.Label)
	for _, o := range nr.Observe {
		fmt.Println("  observed:", o)
	}
	for _, o := range nr.Debug {
		fmt.Println("  debug:", o)
	}
	if nr.Raw != "" {
		fmt.Println(nr.Raw)
	}
	if reproduced(&rf, nr) {
		if rf.Expect == "ok" {
			return 0
		}
		fmt.Printf("REPRODUCED property=%s\n", rf.Property)
		return 1
	}
	fmt.Println("NOT REPRODUCED")
	return 0
}
