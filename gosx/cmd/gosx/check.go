package main

// gosx check -p <property> -tier quick|thorough
//
// Runs every harness registered for the property in /verif/checks.json,
// replays candidate counterexamples natively, cross-validates sampled paths,
// writes /verif/evidence/<id>.json and prints VIOLATION / KNOWN-FINDING lines.

import (
	"math"
	"math/big"
	"encoding/json"
	"flag"
	"fmt"
	"os"
	"path/filepath"
	"runtime"
	"sort"
	"strconv"
	"strings"
	"time"

	"gosx/interp"
)

type TierSpec struct {
	Params   map[string]int `json:"params"`
	BudgetS  int            `json:"budget_s"`
	MaxPaths int            `json:"max_paths"`
	Skip     bool           `json:"skip"`
}

type HarnessSpec struct {
	Name     string   `json:"name"`
	Func     string   `json:"func"` // harness function (default: name); lets one function run as several variants
	InCmd    bool     `json:"in_cmd"`
	Desc     string   `json:"desc"`
	Kind     string   `json:"kind"` // kernel | bounded
	Quick    TierSpec `json:"quick"`
	Thorough TierSpec `json:"thorough"`
	Reach    []string `json:"reach"`
	Race     bool     `json:"race"`
	CmdInits bool     `json:"cmd_inits"`
	Bounds   string   `json:"bounds"`
	Symbolic string   `json:"symbolic"`
	Split    string   `json:"split"`
	TimeoutMs int     `json:"timeout_ms"`
	MaxSteps int64    `json:"max_steps"`
}

type PropSpec struct {
	Level       string        `json:"level"`
	Harnesses   []HarnessSpec `json:"harnesses"`
	Assumptions []string      `json:"assumptions"`
	Explanation string        `json:"explanation"`
}

type KnownFinding struct {
	ID       string `json:"id"`
	Property string `json:"property"`
	Status   string `json:"status"` // open | fixed
	Commit   string `json:"commit,omitempty"`
	What     string `json:"what"`
	Witness  string `json:"witness,omitempty"`
}

func readJSON(path string, v interface{}) error {
	b, err := os.ReadFile(path)
	if err != nil {
		return err
	}
	return json.Unmarshal(b, v)
}

type harnessReport struct {
	Name          string            `json:"harness"`
	Kind          string            `json:"kind,omitempty"`
	Desc          string            `json:"desc,omitempty"`
	Params        map[string]int    `json:"params,omitempty"`
	Bounds        string            `json:"bounds,omitempty"`
	Symbolic      string            `json:"symbolic,omitempty"`
	Split         string            `json:"split,omitempty"`
	Paths         int               `json:"paths"`
	Decisions     int               `json:"decisions"`
	ByStatus      map[string]int    `json:"paths_by_status"`
	Asserts       int               `json:"assertions_discharged"`
	Queries       map[string]int    `json:"queries"`
	SolverS       float64           `json:"solver_s"`
	WallS         float64           `json:"wall_s"`
	MaxSteps      int64             `json:"max_ssa_steps_on_a_path"`
	Reached       map[string]int    `json:"reach_labels"`
	Known         map[string]int    `json:"known_findings_hit,omitempty"`
	Truncated     string            `json:"reduced_bound,omitempty"`
	Inconclusive  int               `json:"inconclusive_paths"`
	InconclusiveS []string          `json:"inconclusive_samples,omitempty"`
	NativeOK      int               `json:"native_validated_paths"`
	NativeBad     int               `json:"native_mismatches"`
	Candidates    int               `json:"candidates"`
	Reproduced    int               `json:"candidates_reproduced"`
	UnknownFeas   int               `json:"feasibility_unknowns"`
}

func cmdCheck(args []string) int {
	fs := flag.NewFlagSet("check", flag.ExitOnError)
	prop := fs.String("p", "", "property id")
	tier := fs.String("tier", "", "quick|thorough")
	workers := fs.Int("j", runtime.NumCPU(), "workers")
	only := fs.String("only", "", "run only this harness")
	noEvidence := fs.Bool("no-evidence", false, "do not write the evidence file")
	solver := fs.String("solver", "z3", "z3 | z3-new | cvc5 (the registered checks use z3; the others are for differential runs)")
	fs.Parse(args)
	if *tier == "" {
		*tier = os.Getenv("VERIF_TIER")
	}
	if *tier == "" {
		*tier = "quick"
	}
	seed, _ := strconv.Atoi(os.Getenv("VERIF_SEED"))
	t0 := time.Now()

	var specs map[string]PropSpec
	if err := readJSON("/verif/checks.json", &specs); err != nil {
		fmt.Fprintln(os.Stderr, "checks.json:", err)
		return 3
	}
	ps, ok := specs[*prop]
	if !ok {
		fmt.Fprintln(os.Stderr, "no check registered for", *prop)
		return 3
	}
	var known []KnownFinding
	readJSON("/verif/known_findings.json", &known)

	withCmd := false
	for _, h := range ps.Harnesses {
		if h.InCmd {
			withCmd = true
		}
	}
	l, err := load(withCmd)
	if err != nil {
		fmt.Fprintln(os.Stderr, "load:", err)
		fmt.Printf("INCONCLUSIVE property=%s reason=load-failed\n", *prop)
		return 3
	}
	loadS := time.Since(t0).Seconds()
	nb, err := newNativeBuilder()
	if err != nil {
		fmt.Fprintln(os.Stderr, err)
		return 3
	}
	defer nb.Close()

	var reports []harnessReport
	funcs := map[string]bool{}
	stubs := map[string]bool{}
	var samples []interface{}
	violations := 0
	inconclusive := 0
	var problems []string
	knownHit := map[string]int{}
	totalPaths, totalDec, totalNative := 0, 0, 0
	initFailures := map[string]string{}

	for _, hs := range ps.Harnesses {
		if *only != "" && hs.Name != *only {
			continue
		}
		ts := hs.Quick
		if *tier == "thorough" {
			ts = hs.Thorough
			if ts.Params == nil && ts.BudgetS == 0 && !ts.Skip {
				ts = hs.Quick
			}
		}
		if ts.Skip {
			continue
		}
		pkg := l.harness
		if hs.InCmd {
			pkg = l.cmdPkg
		}
		if hs.Func == "" {
			hs.Func = hs.Name
		}
		fn := pkg.Func(hs.Func)
		if fn == nil {
			problems = append(problems, "harness not found: "+hs.Name)
			inconclusive++
			continue
		}
		tmo := hs.TimeoutMs
		if tmo == 0 {
			tmo = 10000
			if *tier == "thorough" {
				tmo = 60000
			}
		}
		params := map[string]int{}
		for k, v := range ts.Params {
			params[k] = v
		}
		params["seed"] = seed
		cfg := &interp.Config{
			Prog: l.prog, HarnessPkgs: harnessPkgs(l), InitPkgs: l.initPkgs, RepoPrefix: repoMod, Workers: *workers,
			SolverArgv: solverArgv(*solver), TimeoutMs: tmo, MaxPaths: ts.MaxPaths,
			Budget: time.Duration(ts.BudgetS) * time.Second, Params: params, SampleEvery: 97, MaxSteps: hs.MaxSteps, RunCmdInits: hs.CmdInits, FreshInits: hs.CmdInits, KeepObs: hs.Kind == "deterministic",
		}
		res, err := interp.Explore(cfg, fn)
		if err != nil {
			problems = append(problems, fmt.Sprintf("%s: explore: %v", hs.Name, err))
			inconclusive++
			continue
		}
		for k, v := range res.InitFailures {
			initFailures[k] = v
		}
		rep := harnessReport{
			Name: hs.Name, Kind: hs.Kind, Desc: hs.Desc, Params: ts.Params, Bounds: hs.Bounds, Symbolic: hs.Symbolic, Split: hs.Split,
			Paths: res.Paths, Decisions: res.Decisions, ByStatus: res.ByStatus, Asserts: res.Asserts,
			Queries: map[string]int{"total": res.Solver.Queries, "sat": res.Solver.Sat, "unsat": res.Solver.Unsat, "unknown": res.Solver.Unknown, "errors": res.Solver.Errors},
			SolverS: res.Solver.Time.Seconds(), WallS: res.Wall.Seconds(), MaxSteps: res.MaxSteps, Reached: res.Reached, Known: res.Known,
			Truncated: res.Truncated, Inconclusive: len(res.Inconclusive), Candidates: len(res.Candidates), UnknownFeas: res.UnknownFeas,
		}
		for k := range res.Funcs {
			funcs[k] = true
		}
		for k := range res.Stubs {
			stubs[k] = true
		}
		for k, v := range res.Known {
			knownHit[k] += v
		}
		totalPaths += res.Paths
		totalDec += res.Decisions

		// vacuity
		for _, lab := range hs.Reach {
			if res.Reached[lab] == 0 {
				problems = append(problems, fmt.Sprintf("%s: vacuous: label %q not reached", hs.Name, lab))
				inconclusive++
			}
		}
		if res.Truncated != "" {
			problems = append(problems, fmt.Sprintf("%s: reduced bound: %s", hs.Name, res.Truncated))
			inconclusive++
		}
		for i, ic := range res.Inconclusive {
			if i < 5 {
				rep.InconclusiveS = append(rep.InconclusiveS, fmt.Sprintf("%s: %s", ic.Status, firstLines(ic.Msg, 2)))
			}
		}
		if len(res.Inconclusive) > 0 {
			problems = append(problems, fmt.Sprintf("%s: %d inconclusive paths (first: %s)", hs.Name, len(res.Inconclusive), rep.InconclusiveS[0]))
			inconclusive++
		}

		// native cross-validation of sampled OK paths
		if len(res.Samples) > 0 {
			dir, _ := os.MkdirTemp(nb.dir, "samples-")
			var files []string
			rfs := map[string]*ReplayFile{}
			for _, s := range res.Samples {
				if s.RandN > 0 && !s.Seeded {
					continue // random draws cannot be forced natively
				}
				// (seeded-rand harnesses assert equality of two seeded runs: the native
				// run uses the real generator and must pass just the same)
				rf := &ReplayFile{Property: *prop, Harness: hs.Func, InCmd: hs.InCmd, Inputs: s.Inputs, Params: params, Expect: "ok", Observe: s.Observe}
				p, err := writeReplay(dir, rf)
				if err == nil {
					files = append(files, p)
					rfs[p] = rf
				}
			}
			if len(files) > 0 {
				var nres map[string]*NativeResult
				var err error
				if hs.CmdInits {
					// these harnesses write to the option variables and flag objects of
					// package cmd: one process per path, as every path starts from the
					// state of a new process
					nres = map[string]*NativeResult{}
					for _, f := range files {
						one, e := nb.run([]string{f}, hs.InCmd, false, 60*time.Second)
						if e != nil {
							err = e
							break
						}
						for k, v := range one {
							nres[k] = v
						}
					}
				} else {
					nres, err = nb.run(files, hs.InCmd, false, 120*time.Second)
				}
				if err != nil {
					problems = append(problems, fmt.Sprintf("%s: native build/run: %v", hs.Name, err))
					inconclusive++
				} else {
					for _, f := range files {
						nr := nres[f]
						rf := rfs[f]
						if nr != nil && nr.Status == "ok" && sameObs(rf.Observe, nr.Observe) {
							rep.NativeOK++
						} else {
							rep.NativeBad++
							st := "missing"
							if nr != nil {
								st = nr.Status + " " + nr.Label
							}
							keep, _ := writeReplay("/verif/replays", rf)
							problems = append(problems, fmt.Sprintf("%s: translator cross-validation mismatch (native %s; engine ok) replay=%s", hs.Name, st, keep))
							inconclusive++
						}
					}
				}
			}
			totalNative += rep.NativeOK
			for i, s := range res.Samples {
				if i < 2 {
					samples = append(samples, samplePath(hs.Name, s))
				}
			}
		}

		// distribution harnesses: exact outcome probabilities per class
		if hs.Kind == "distribution" {
			v, inc, probs := analyseDistribution(*prop, &hs, res, params, nb)
			violations += v
			inconclusive += inc
			problems = append(problems, probs...)
			rep.Reproduced += v
		}

		// determinism harnesses: within a class all paths (all resolutions of the
		// nondeterminism a seed does not fix) must observe the same outcome
		if hs.Kind == "deterministic" {
			v, inc, probs := analyseDeterminism(*prop, &hs, res, params, nb)
			violations += v
			inconclusive += inc
			problems = append(problems, probs...)
			rep.Reproduced += v
		}

		// candidates: replay natively, one per distinct (status,label/site)
		seen := map[string]int{}
		for _, c := range res.Candidates {
			key := c.Status.String() + "|" + firstLines(c.Msg, 1)
			if c.Status == interp.StHang {
				// the function in which the bound was hit is incidental
				key = "hang"
			}
			if seen[key] >= 2 && !(c.Status == interp.StHang && seen[key] < 4) {
				continue
			}
			seen[key]++
			rf := &ReplayFile{Property: *prop, Harness: hs.Func, InCmd: hs.InCmd, Inputs: c.Inputs, Params: params,
				Expect: statusExpect(c.Status), Label: c.Msg, Msg: c.Msg, Trace: c.Trace, Race: c.Status == interp.StRace || hs.Race}
			if c.Status != interp.StViolation {
				rf.Label = ""
			}
			p, err := writeReplay("/verif/replays", rf)
			if err != nil {
				problems = append(problems, err.Error())
				inconclusive++
				continue
			}
			var nr *NativeResult
			tries := 1
			if c.RandN > 0 || c.Status == interp.StRace || c.Status == interp.StDeadlock {
				tries = 3
			}
			for t := 0; t < tries && !reproduced(rf, nr); t++ {
				nres, err := nb.run([]string{p}, hs.InCmd, rf.Race, 20*time.Second)
				if err != nil {
					problems = append(problems, fmt.Sprintf("%s: native build/run: %v", hs.Name, err))
					break
				}
				nr = nres[p]
			}
			if reproduced(rf, nr) {
				rep.Reproduced++
				violations++
				fmt.Printf("VIOLATION property=%s replay=%s\n", *prop, p)
				fmt.Printf("  harness=%s kind=%s: %s\n", hs.Name, c.Status, firstLines(c.Msg, 2))
				samples = append(samples, samplePath(hs.Name, c))
			} else {
				st := "none"
				if nr != nil {
					st = nr.Status + " " + nr.Label + " " + nr.Msg
				}
				fmt.Printf("UNCONFIRMED property=%s replay=%s engine=%s native=%s\n", *prop, p, c.Status, st)
				problems = append(problems, fmt.Sprintf("%s: candidate %s (%s) not reproduced natively (%s)", hs.Name, c.Status, firstLines(c.Msg, 1), st))
				inconclusive++
			}
		}
		reports = append(reports, rep)
		fmt.Fprintf(os.Stderr, "[%s] %s: paths=%d cand=%d repro=%d inconcl=%d native-ok=%d wall=%.1fs solver=%.1fs %s\n",
			*prop, hs.Name, res.Paths, len(res.Candidates), rep.Reproduced, len(res.Inconclusive), rep.NativeOK, res.Wall.Seconds(), res.Solver.Time.Seconds(), res.Truncated)
	}

	// known findings
	var knownConfirmed []string
	for _, k := range known {
		if k.Property != *prop || k.Status != "open" {
			continue
		}
		if knownHit[k.ID] > 0 {
			fmt.Printf("KNOWN-FINDING: property=%s %s (%s)\n", *prop, k.What, k.ID)
			knownConfirmed = append(knownConfirmed, k.ID)
		} else if *only == "" {
			fmt.Printf("NOTE: known finding %s did not manifest in this run\n", k.ID)
		}
	}
	for id := range knownHit {
		listed := false
		for _, k := range known {
			if k.ID == id && k.Status == "open" && k.Property == *prop {
				listed = true
			}
		}
		if !listed {
			problems = append(problems, "harness uses known-finding class not listed as open in known_findings.json: "+id)
			inconclusive++
		}
	}

	wall := time.Since(t0).Seconds()
	level := ps.Level
	if level == "" {
		level = "model_checking"
	}
	cov := map[string]interface{}{
		"states":                        totalPaths,
		"transitions":                   totalDec,
		"traces_validated_against_impl": totalNative,
		"samples":                       samples,
		"harnesses":                     reports,
		"functions_encoded":             sortedSet(funcs),
		"stubs_and_intrinsics_used":     sortedSet(stubs),
		"known_findings_confirmed":      knownConfirmed,
		"problems":                      problems,
		"load_and_ssa_build_s":          loadS,
		"solver":                        "z3 4.8.12 via one `z3 -in` per worker; no set-logic; any (error or unknown is inconclusive",
		"encoding":                      "go/ssa (x/tools v0.29.0) built from /repo's working tree on this run; symbolic scalars, concrete heap shape, stateless path forking",
		"package_inits_not_interpreted": initFailures,
		"evaluations":                   totalPaths,
		"distinct_nontrivial":           totalPaths,
		"rule":                          "one evaluation = one symbolic path (distinct decision vector) of a harness, decided by the solver for all values of its symbolic inputs; non-trivial = path reached at least one assertion or ended in an obligation failure",
	}
	if len(samples) == 0 {
		cov["samples"] = []interface{}{"no path completed"}
	}
	if ps.Explanation != "" {
		cov["explanation"] = ps.Explanation
	}
	ev := map[string]interface{}{
		"property_id": *prop,
		"tier":        *tier,
		"seed":        seed,
		"level":       level,
		"coverage":    cov,
		"assumptions": ps.Assumptions,
		"wall_s":      wall,
		"violations":  violations,
	}
	if !*noEvidence {
		os.MkdirAll("/verif/evidence", 0o755)
		b, _ := json.MarshalIndent(ev, "", " ")
		if err := os.WriteFile(filepath.Join("/verif/evidence", *prop+".json"), b, 0o644); err != nil {
			fmt.Fprintln(os.Stderr, err)
		}
	}
	for _, p := range problems {
		fmt.Println("PROBLEM:", p)
	}
	switch {
	case violations > 0:
		return 1
	case inconclusive > 0:
		fmt.Printf("INCONCLUSIVE property=%s (%d problems)\n", *prop, len(problems))
		return 3
	}
	fmt.Printf("OK property=%s tier=%s paths=%d native-validated=%d wall=%.1fs\n", *prop, *tier, totalPaths, totalNative, wall)
	return 0
}

func sameObs(a, b []string) bool {
	if len(a) != len(b) {
		return false
	}
	for i := range a {
		if strings.ReplaceAll(a[i], "\n", "\\n") != b[i] {
			return false
		}
	}
	return true
}

func sortedSet(m map[string]bool) []string {
	ks := make([]string, 0, len(m))
	for k := range m {
		ks = append(ks, k)
	}
	sort.Strings(ks)
	return ks
}

func samplePath(h string, p *interp.PathResult) map[string]interface{} {
	ins := map[string]string{}
	for _, in := range p.Inputs {
		ins[in.Name] = in.Val
	}
	return map[string]interface{}{
		"harness": h, "status": p.Status.String(), "msg": firstLines(p.Msg, 1), "decisions": len(p.Trace),
		"pc_conjuncts": p.PCSize, "ssa_steps": p.Steps, "one_model": ins, "reach": p.Reached,
	}
}


func obsValue(obs []string, tag string) (string, bool) {
	for _, o := range obs {
		if strings.HasPrefix(o, tag+"=") {
			return o[len(tag)+1:], true
		}
	}
	return "", false
}

// analyseDistribution: every path carries its exact probability; per class
// (configuration) the masses must add up to 1 (all paths are boxes, none is
// missing), every expected outcome must have a non-zero probability and all
// outcomes the same probability. Violations are confirmed natively by running
// the harness under many seeds and comparing the empirical frequencies with the
// exact distribution computed by the engine.
func analyseDistribution(prop string, hs *HarnessSpec, res *interp.ExploreResult, params map[string]int, nb *nativeBuilder) (violations, inconclusive int, problems []string) {
	type cls struct {
		mass   *big.Rat
		out    map[string]*big.Rat
		expect int
		sample *interp.PathResult
	}
	classes := map[string]*cls{}
	for _, p := range res.Weighted {
		c, ok1 := obsValue(p.Observe, "class")
		o, ok2 := obsValue(p.Observe, "outcome")
		if !ok1 || !ok2 {
			problems = append(problems, hs.Name+": path without class/outcome observation")
			inconclusive++
			continue
		}
		k := classes[c]
		if k == nil {
			k = &cls{mass: new(big.Rat), out: map[string]*big.Rat{}, sample: p}
			classes[c] = k
		}
		w, _ := new(big.Rat).SetString(p.Weight)
		k.mass.Add(k.mass, w)
		if k.out[o] == nil {
			k.out[o] = new(big.Rat)
		}
		k.out[o].Add(k.out[o], w)
		if e, ok := obsValue(p.Observe, "expect"); ok {
			k.expect, _ = strconv.Atoi(e)
		}
	}
	if len(classes) == 0 {
		problems = append(problems, hs.Name+": no weighted path")
		inconclusive++
	}
	one := big.NewRat(1, 1)
	var names []string
	for c := range classes {
		names = append(names, c)
	}
	sort.Strings(names)
	nviol := 0
	for _, c := range names {
		k := classes[c]
		if k.mass.Cmp(one) != 0 {
			problems = append(problems, fmt.Sprintf("%s: class %s: path probabilities add up to %s, not 1 (a path condition is not a box over the draws, or paths are missing)", hs.Name, c, k.mass.RatString()))
			inconclusive++
			continue
		}
		what := ""
		if k.expect > 0 && len(k.out) != k.expect {
			what = fmt.Sprintf("%d of %d possible outcomes have probability 0", k.expect-len(k.out), k.expect)
		} else {
			var first *big.Rat
			for _, pr := range k.out {
				if first == nil {
					first = pr
				} else if pr.Cmp(first) != 0 {
					what = "outcomes do not have the same probability"
				}
			}
		}
		if what == "" {
			continue
		}
		if nviol >= 3 {
			continue
		}
		nviol++
		dist := map[string]string{}
		for o, pr := range k.out {
			dist[o] = pr.RatString()
		}
		rf := &ReplayFile{Property: prop, Harness: hs.Func, InCmd: hs.InCmd, Inputs: k.sample.Inputs, Params: params,
			Expect: "distribution", Label: what, Msg: "class " + c + ": " + what, Dist: dist, Class: c, NExpect: k.expect}
		pth, err := writeReplay("/verif/replays", rf)
		if err != nil {
			problems = append(problems, err.Error())
			inconclusive++
			continue
		}
		ok, detail := confirmDistribution(nb, pth, rf)
		if ok {
			violations++
			fmt.Printf("VIOLATION property=%s replay=%s\n", prop, pth)
			fmt.Printf("  harness=%s kind=distribution: class %s: %s (%s)\n", hs.Name, c, what, detail)
		} else {
			fmt.Printf("UNCONFIRMED property=%s replay=%s engine=distribution native=%s\n", prop, pth, detail)
			problems = append(problems, fmt.Sprintf("%s: distribution violation in class %s not confirmed natively (%s)", hs.Name, c, detail))
			inconclusive++
		}
	}
	return
}

// confirmDistribution runs the harness natively under 30000 seeds and checks that
// the empirical frequencies agree with the exact distribution of the engine
// (within 6 sigma each) while disagreeing with the uniform one.
func confirmDistribution(nb *nativeBuilder, path string, rf *ReplayFile) (bool, string) {
	const R = 30000
	nres, err := nb.runRepeat([]string{path}, rf.InCmd, false, 120*time.Second, R)
	if err != nil {
		return false, err.Error()
	}
	nr := nres[path]
	if nr == nil || nr.Dist == nil {
		return false, "no native distribution"
	}
	n := rf.NExpect
	if n == 0 {
		n = len(rf.Dist)
	}
	agree := true
	nonUniform := false
	total := 0
	for _, c := range nr.Dist {
		total += c
	}
	if total < R/2 {
		return false, fmt.Sprintf("only %d native runs produced an outcome", total)
	}
	seen := map[string]bool{}
	check := func(o string, p float64) {
		emp := float64(nr.Dist[o]) / float64(total)
		sd := math.Sqrt(p*(1-p)/float64(total)) + 1e-9
		if math.Abs(emp-p) > 6*sd+1e-3 {
			agree = false
		}
		u := 1.0 / float64(n)
		if math.Abs(emp-u) > 6*math.Sqrt(u*(1-u)/float64(total)) {
			nonUniform = true
		}
	}
	for o, ps := range rf.Dist {
		r, _ := new(big.Rat).SetString(ps)
		f, _ := r.Float64()
		check(o, f)
		seen[o] = true
	}
	for o := range nr.Dist {
		if !seen[o] {
			check(o, 0)
		}
	}
	if len(rf.Dist) < n {
		nonUniform = nonUniform || len(nr.Dist) < n
	}
	if os.Getenv("GOSX_DEBUG_DIST") != "" {
		fmt.Fprintf(os.Stderr, "native counts: %v\n", nr.Dist)
	}
	if agree && nonUniform {
		return true, fmt.Sprintf("%d native runs agree with the exact distribution and reject uniformity", total)
	}
	return false, fmt.Sprintf("native frequencies: agree=%v nonuniform=%v over %d runs", agree, nonUniform, total)
}


// analyseDeterminism: 2-safety by path comparison. Paths of one class differ only
// in the resolution of map iteration orders / schedules / clock; their outcome
// observations must be identical. A violation is confirmed natively by repeating
// the call until two different outputs are seen.
func analyseDeterminism(prop string, hs *HarnessSpec, res *interp.ExploreResult, params map[string]int, nb *nativeBuilder) (violations, inconclusive int, problems []string) {
	type cls struct {
		out    map[string]int
		sample *interp.PathResult
	}
	classes := map[string]*cls{}
	for _, p := range res.Weighted {
		c, ok1 := obsValue(p.Observe, "class")
		o, ok2 := obsValue(p.Observe, "outcome")
		if !ok1 || !ok2 {
			continue
		}
		k := classes[c]
		if k == nil {
			k = &cls{out: map[string]int{}, sample: p}
			classes[c] = k
		}
		k.out[o]++
	}
	if len(classes) == 0 {
		problems = append(problems, hs.Name+": no path with class/outcome observations")
		inconclusive++
	}
	var names []string
	for c := range classes {
		names = append(names, c)
	}
	sort.Strings(names)
	nviol := 0
	for _, c := range names {
		k := classes[c]
		if len(k.out) <= 1 || nviol >= 3 {
			continue
		}
		nviol++
		dist := map[string]string{}
		for o, n := range k.out {
			dist[o] = strconv.Itoa(n)
		}
		what := fmt.Sprintf("%d different outputs for the same input, options and seed", len(k.out))
		rf := &ReplayFile{Property: prop, Harness: hs.Func, InCmd: hs.InCmd, Inputs: k.sample.Inputs, Params: params,
			Expect: "nondeterminism", Label: what, Msg: "class " + c + ": " + what, Dist: dist, Class: c}
		pth, err := writeReplay("/verif/replays", rf)
		if err != nil {
			problems = append(problems, err.Error())
			inconclusive++
			continue
		}
		nres, err := nb.runRepeat([]string{pth}, rf.InCmd, false, 120*time.Second, -500)
		seen := 0
		if err == nil && nres[pth] != nil {
			seen = len(nres[pth].Dist)
		}
		how := "in 500 repetitions"
		if seen <= 1 {
			// maybe the output only varies from process to process
			outs := map[string]bool{}
			for r := 0; r < 12; r++ {
				nres, err := nb.runRepeat([]string{pth}, rf.InCmd, false, 60*time.Second, -1)
				if err == nil && nres[pth] != nil {
					for o := range nres[pth].Dist {
						outs[o] = true
					}
				}
			}
			if len(outs) > seen {
				seen = len(outs)
				how = "across 12 processes"
			}
		}
		if seen > 1 {
			violations++
			fmt.Printf("VIOLATION property=%s replay=%s\n", prop, pth)
			fmt.Printf("  harness=%s kind=nondeterminism: class %s: %s (natively: %d different outputs %s)\n", hs.Name, c, what, seen, how)
		} else {
			fmt.Printf("UNCONFIRMED property=%s replay=%s engine=nondeterminism native=%d distinct outputs in 500 repetitions\n", prop, pth, seen)
			problems = append(problems, fmt.Sprintf("%s: nondeterminism in class %s not observed natively", hs.Name, c))
			inconclusive++
		}
	}
	return
}
