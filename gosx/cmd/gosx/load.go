package main

import (
	"fmt"
	"os"
	"path/filepath"
	"sort"
	"strings"

	"golang.org/x/tools/go/packages"
	"golang.org/x/tools/go/ssa"
	"golang.org/x/tools/go/ssa/ssautil"
)

// repoDir: the tree under check. /repo unless GOSX_REPO names another checkout
// (used for long background runs on a snapshot while /repo is being patched).
var repoDir = func() string {
	if d := os.Getenv("GOSX_REPO"); d != "" {
		return d
	}
	return "/repo"
}()
const repoMod = "github.com/evolbioinfo/gotree"

type loaded struct {
	prog     *ssa.Program
	harness  *ssa.Package // zz_vh
	cmdPkg   *ssa.Package // cmd (when loaded)
	initPkgs []*ssa.Package
	pkgs     []*packages.Package
	overlay  map[string]string // virtual path -> real path
}

// initAllow lists the packages whose init functions are interpreted (all
// /repo packages except cmd are added automatically).
var initAllow = map[string]bool{
	"io": true, "strings": true, "bytes": true, "bufio": true, "strconv": true,
	"unicode/utf8": true, "unicode": true, "sort": true, "math": true, "math/bits": true, "hash/fnv": true,
	"hash": true, "slices": true, "cmp": true, "unicode/utf16": true,
	"github.com/fredericlemoine/bitset":      true,
	"github.com/fredericlemoine/gostats":     true,
	"github.com/evolbioinfo/goalign/align":   true,
	"github.com/evolbioinfo/goalign/io":      true,
	"regexp": true, "regexp/syntax": true,
	"encoding/binary": true,
	"github.com/spf13/pflag": true, "github.com/spf13/cobra": true,
	"text/template": true, "errors": true, "fmt": true,
}

func harnessOverlay(withCmd bool) (map[string][]byte, map[string]string, error) {
	ov := map[string][]byte{}
	paths := map[string]string{}
	files, _ := filepath.Glob(harnessBase()+"/harness/*.go")
	for _, f := range files {
		b, err := os.ReadFile(f)
		if err != nil {
			return nil, nil, err
		}
		v := filepath.Join(repoDir, "zz_vh", filepath.Base(f))
		ov[v] = b
		paths[v] = f
	}
	if withCmd {
		// the sx prelude of the in-package cmd harnesses is the same file, with
		// the package clause changed
		if b, err := os.ReadFile(harnessBase()+"/harness/sx_prelude.go"); err == nil {
			v := filepath.Join(repoDir, "cmd", "zz_vh_sx_prelude.go")
			ov[v] = []byte(strings.Replace(string(b), "package zzvh", "package cmd", 1))
			paths[v] = harnessBase()+"/harness/sx_prelude.go"
		}
		files, _ := filepath.Glob(harnessBase()+"/harness_cmd/*.go")
		for _, f := range files {
			if filepath.Base(f) == "sx_prelude.go" {
				continue
			}
			b, err := os.ReadFile(f)
			if err != nil {
				return nil, nil, err
			}
			v := filepath.Join(repoDir, "cmd", "zz_vh_"+filepath.Base(f))
			ov[v] = b
			paths[v] = f
		}
	}
	return ov, paths, nil
}

func load(withCmd bool) (*loaded, error) {
	ov, paths, err := harnessOverlay(withCmd)
	if err != nil {
		return nil, err
	}
	cfg := &packages.Config{
		Mode:    packages.LoadAllSyntax,
		Dir:     repoDir,
		Overlay: ov,
		Env:     append(os.Environ(), "GOFLAGS=-mod=mod", "GOPROXY=off", "GOSUMDB=off", "GOTOOLCHAIN=local"),
	}
	patterns := []string{"./zz_vh"}
	if withCmd {
		patterns = append(patterns, "./cmd")
	}
	pkgs, err := packages.Load(cfg, patterns...)
	if err != nil {
		return nil, err
	}
	nerr := 0
	packages.Visit(pkgs, nil, func(p *packages.Package) {
		for _, e := range p.Errors {
			if strings.HasPrefix(p.PkgPath, repoMod) {
				fmt.Fprintf(os.Stderr, "load error in %s: %v\n", p.PkgPath, e)
				nerr++
			}
		}
	})
	if nerr > 0 {
		return nil, fmt.Errorf("%d load errors in /repo packages (does the tree build?)", nerr)
	}
	prog, spkgs := ssautil.AllPackages(pkgs, ssa.InstantiateGenerics|ssa.SanityCheckFunctions&0)
	prog.Build()
	l := &loaded{prog: prog, pkgs: pkgs, overlay: paths}
	for i, p := range pkgs {
		if strings.HasSuffix(p.PkgPath, "/zz_vh") {
			l.harness = spkgs[i]
		}
		if strings.HasSuffix(p.PkgPath, "/cmd") {
			l.cmdPkg = spkgs[i]
		}
	}
	if l.harness == nil {
		return nil, fmt.Errorf("harness package not loaded")
	}
	// init order: dependency order over allowed packages
	var order []*packages.Package
	seen := map[string]bool{}
	var visit func(p *packages.Package)
	visit = func(p *packages.Package) {
		if seen[p.PkgPath] {
			return
		}
		seen[p.PkgPath] = true
		var imps []string
		for k := range p.Imports {
			imps = append(imps, k)
		}
		sort.Strings(imps)
		for _, k := range imps {
			visit(p.Imports[k])
		}
		order = append(order, p)
	}
	for _, p := range pkgs {
		visit(p)
	}
	for _, p := range order {
		ok := initAllow[p.PkgPath]
		if strings.HasPrefix(p.PkgPath, repoMod) {
			// (package cmd: only the package-level variable initialisers are
			// interpreted, its init#k functions - cobra/pflag registration - are skipped)
			ok = true
		}
		if !ok {
			continue
		}
		if sp := prog.Package(p.Types); sp != nil {
			l.initPkgs = append(l.initPkgs, sp)
		}
	}
	return l, nil
}

func harnessPkgs(l *loaded) []*ssa.Package {
	ps := []*ssa.Package{l.harness}
	if l.cmdPkg != nil {
		ps = append(ps, l.cmdPkg)
	}
	return ps
}

// harnessBase: /verif, or (developer runs only) the directory named by
// GOSX_HARNESS_BASE holding copies of harness/ and harness_cmd/.
func harnessBase() string {
	if d := os.Getenv("GOSX_HARNESS_BASE"); d != "" {
		return d
	}
	return "/verif"
}
