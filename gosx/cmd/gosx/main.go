package main

import (
	"flag"
	"fmt"
	"os"
	"runtime"
	"sort"
	"strconv"
	"strings"
	"time"

	"gosx/interp"
)

func main() {
	if len(os.Args) < 2 {
		fmt.Fprintln(os.Stderr, "usage: gosx run|check|replay ...")
		os.Exit(2)
	}
	switch os.Args[1] {
	case "run":
		os.Exit(cmdRun(os.Args[2:]))
	case "check":
		os.Exit(cmdCheck(os.Args[2:]))
	case "replay":
		os.Exit(cmdReplay(os.Args[2:]))
	}
	fmt.Fprintln(os.Stderr, "unknown subcommand", os.Args[1])
	os.Exit(2)
}

type paramFlag map[string]int

func (p paramFlag) String() string { return fmt.Sprint(map[string]int(p)) }
func (p paramFlag) Set(s string) error {
	kv := strings.SplitN(s, "=", 2)
	if len(kv) != 2 {
		return fmt.Errorf("want k=v")
	}
	n, err := strconv.Atoi(kv[1])
	if err != nil {
		return err
	}
	p[kv[0]] = n
	return nil
}

func solverArgv(name string) []string {
	switch name {
	case "z3-new":
		return []string{"z3-new", "-in", "-smt2"}
	case "cvc5":
		return []string{"cvc5", "--incremental", "--lang=smt2", "--produce-models"}
	}
	return []string{"z3", "-in", "-smt2"}
}

// cmdRun: developer tool — explore one harness and print a summary.
func cmdRun(args []string) int {
	fs := flag.NewFlagSet("run", flag.ExitOnError)
	h := fs.String("h", "", "harness function")
	workers := fs.Int("j", runtime.NumCPU(), "workers")
	maxPaths := fs.Int("max-paths", 0, "path limit")
	budget := fs.Duration("budget", 0, "time budget")
	timeout := fs.Int("timeout", 10000, "solver timeout per query (ms)")
	trace := fs.Bool("trace", false, "trace instructions")
	withCmd := fs.Bool("cmd", false, "load package cmd")
	solver := fs.String("solver", "z3", "z3|z3-new|cvc5")
	slog := fs.String("solver-log", "", "write worker 0's SMT-LIB dialogue here")
	first := fs.Bool("first", false, "stop at first candidate")
	cmdInits := fs.Bool("cmd-inits", false, "interpret package cmd's init#k functions")
	verbose := fs.Bool("v", false, "print every candidate")
	params := paramFlag{}
	fs.Var(params, "p", "harness parameter k=v (repeatable)")
	fs.Parse(args)
	t0 := time.Now()
	l, err := load(*withCmd)
	if err != nil {
		fmt.Fprintln(os.Stderr, "load:", err)
		return 3
	}
	fmt.Fprintf(os.Stderr, "loaded in %v\n", time.Since(t0))
	fn := l.harness.Func(*h)
	if fn == nil && l.cmdPkg != nil {
		fn = l.cmdPkg.Func(*h)
	}
	if fn == nil {
		fmt.Fprintln(os.Stderr, "no such harness:", *h)
		return 3
	}
	cfg := &interp.Config{
		Prog: l.prog, HarnessPkgs: harnessPkgs(l), InitPkgs: l.initPkgs, RepoPrefix: repoMod, Workers: *workers,
		SolverArgv: solverArgv(*solver), TimeoutMs: *timeout, MaxPaths: *maxPaths, Budget: *budget,
		Params: params, Trace: *trace, SampleEvery: 50, SolverLog: *slog, StopOnFirst: *first, RunCmdInits: *cmdInits, FreshInits: *cmdInits,
	}
	res, err := interp.Explore(cfg, fn)
	if err != nil {
		fmt.Fprintln(os.Stderr, "explore:", err)
		return 3
	}
	printSummary(res, *verbose)
	if len(res.Candidates) > 0 {
		return 1
	}
	return 0
}

func printSummary(res *interp.ExploreResult, verbose bool) {
	fmt.Printf("paths=%d decisions=%d wall=%v solver: q=%d sat=%d unsat=%d unknown=%d err=%d time=%v maxsteps=%d asserts=%d\n",
		res.Paths, res.Decisions, res.Wall.Round(time.Millisecond), res.Solver.Queries, res.Solver.Sat, res.Solver.Unsat,
		res.Solver.Unknown, res.Solver.Errors, res.Solver.Time.Round(time.Millisecond), res.MaxSteps, res.Asserts)
	var ks []string
	for k := range res.ByStatus {
		ks = append(ks, k)
	}
	sort.Strings(ks)
	for _, k := range ks {
		fmt.Printf("  %-14s %d\n", k, res.ByStatus[k])
	}
	if res.Truncated != "" {
		fmt.Println("  TRUNCATED:", res.Truncated)
	}
	for p, why := range res.InitFailures {
		fmt.Printf("  init failed: %s: %s\n", p, why)
	}
	fmt.Printf("  reached: %v known: %v\n", res.Reached, res.Known)
	for i, c := range res.Candidates {
		if i >= 5 && !verbose {
			fmt.Printf("  ... %d more candidates\n", len(res.Candidates)-i)
			break
		}
		fmt.Printf("  CANDIDATE %s: %s\n", c.Status, firstLines(c.Msg, 3))
		for _, in := range c.Inputs {
			fmt.Printf("      %s(%s) = %s\n", in.Name, in.Kind, in.Val)
		}
	}
	for i, c := range res.Inconclusive {
		if i >= 5 && !verbose {
			fmt.Printf("  ... %d more inconclusive\n", len(res.Inconclusive)-i)
			break
		}
		fmt.Printf("  INCONCLUSIVE %s: %s\n", c.Status, firstLines(c.Msg, 30))
	}
}

func firstLines(s string, n int) string {
	ls := strings.Split(s, "\n")
	if len(ls) > n {
		ls = ls[:n]
	}
	return strings.Join(ls, "\n")
}
