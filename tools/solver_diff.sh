#!/bin/bash
# Differential run of the quick tier under another solver: per harness the number
# of symbolic paths, candidates and inconclusive paths must equal those of the
# registered z3 4.8.12 run (taken from /verif/evidence/<id>.json).
# usage: solver_diff.sh <z3-new|cvc5> [props...]   (GOSX_REPO may point to a snapshot; -j via JOBS)
SV=$1; shift
PROPS=${@:-C01 C02 C03 C04 C05 C06 C07 C08 C09 C10 C11 C12 C13 C14 C15 C16 C17 C18 C19 C20}
for p in $PROPS; do
  /verif/bin/gosx check -p $p -tier quick -no-evidence -solver $SV -j ${JOBS:-8} 2>&1 | grep -E "^\[$p\]|^(OK|INCONCLUSIVE|VIOLATION)" > /tmp/sd.$$ 
  python3 - "$p" "$SV" /tmp/sd.$$ <<'PY'
import json,re,sys
p,sv,f=sys.argv[1:4]
ev=json.load(open(f'/verif/evidence/{p}.json'))
ref={h['harness']:(h['paths'],h['candidates'],h['inconclusive_paths']) for h in ev['coverage']['harnesses']}
got={}
verdict='?'
for l in open(f):
    m=re.match(r'\[\w+\] (\S+): paths=(\d+) cand=(\d+) repro=\d+ inconcl=(\d+)',l)
    if m: got[m.group(1)]=(int(m.group(2)),int(m.group(3)),int(m.group(4)))
    if l.startswith(('OK','INCONCLUSIVE','VIOLATION')): verdict=l.split()[0]
for h in ref:
    st='same' if got.get(h)==ref[h] else 'DIFFERENT'
    print(f"{p} {h} solver={sv} z3-4.8.12={ref[h]} {sv}={got.get(h)} {st} verdict={verdict}")
PY
done
rm -f /tmp/sd.$$
