#!/usr/bin/env python3
"""seed_keep.py <prop> <letter> <caught_by|MISSED> [note]  — copy a confirmed seeded change into /verif/seeded/<prop>-<letter>/"""
import json, os, shutil, sys
P, L, caught = sys.argv[1:4]
note = sys.argv[4] if len(sys.argv) > 4 else ""
src = os.environ.get("SEED_SRC", "/tmp/wt-out") + f"/{P}"
dst = f"/verif/seeded/{P}-{L}"
os.makedirs(dst, exist_ok=True)
shutil.copy(f"{src}/{L}.patch.diff", f"{dst}/patch.diff")
shutil.copy(f"{src}/{L}_demo_test.go", f"{dst}/demo_test.go.txt")
try:
    am = json.load(open(f"{src}/meta.json")).get(L, {})
except Exception as e:
    am = {"error": str(e)}
meta = {
 "property": P, "breaks": am.get("breaks"), "needs_to_manifest": am.get("needs"),
 "author": "independent sub-agent given only the property text and a scratch worktree",
 "author_ran": am.get("ran"),
 "confirmed_by_me": [f"tools/seed_verify.sh {P} {L}: builds, whole suite passes with the change, demo fails with it and passes without (scratch worktree, removed afterwards)"],
 "checked_with": f"tools/seed_check.sh /verif/seeded/{P}-{L}/patch.diff {P} quick|thorough (git apply to /repo, run check, git checkout)",
 "caught_by": caught, "note": note,
 "demo": "demo_test.go.txt (first line says where it goes in the repository; stored with .txt so that it is never compiled from /verif)"
}
json.dump(meta, open(f"{dst}/meta.json", "w"), indent=1)
print("kept", dst)
