#!/bin/bash
# usage: seed_verify.sh <prop> <letter> [srcdir]   — confirm a seeded change in a scratch worktree:
#   builds, whole suite passes, demo fails with the change and passes without it.
export GOFLAGS=-mod=mod GOPROXY=off GOSUMDB=off GOTOOLCHAIN=local
P=$1; L=$2; SRC=${3:-/tmp/wt-out/$P}
WT=$(mktemp -d /tmp/seedwt.XXXXXX); rmdir $WT
git -C /repo worktree add -q --detach $WT HEAD || exit 2
trap "git -C /repo worktree remove --force $WT" EXIT
demo=$SRC/${L}_demo_test.go
place=$(grep -m1 -o 'place at: *[^ ]*' $demo | sed 's/place at: *//')
[ -z "$place" ] && { echo "no place-at line"; exit 2; }
cd $WT
git apply $SRC/$L.patch.diff || { echo "PATCH DOES NOT APPLY"; exit 2; }
go build ./... || { echo "BUILD FAILS"; exit 2; }
for try in 1 2 3; do   # tests.TestEdgeNeighbor is flaky on the unchanged tree (random root with a tip child)
go test -vet=off -count=1 ./... > /tmp/seed_suite.$$ 2>&1; rc=$?
grep -E "^(FAIL|--- FAIL)" /tmp/seed_suite.$$ | head -5
[ $rc -eq 0 ] && break
grep -q -- "--- FAIL: TestEdgeNeighbor" /tmp/seed_suite.$$ || break
done; rm -f /tmp/seed_suite.$$
[ $rc -ne 0 ] && { echo "SUITE FAILS WITH CHANGE"; exit 2; }
echo "suite passes with change"
mkdir -p $(dirname $place); cp $demo $place
pkg=./$(dirname $place)
go test -vet=off -count=1 -timeout 120s $pkg -run 'Demo|demo|ZZ|Zz' > /tmp/seed_demo.$$ 2>&1; rc1=$?
tail -5 /tmp/seed_demo.$$
git checkout -q -- . 
go test -vet=off -count=1 -timeout 120s $pkg -run 'Demo|demo|ZZ|Zz' > /tmp/seed_demo2.$$ 2>&1; rc2=$?
tail -3 /tmp/seed_demo2.$$; rm -f /tmp/seed_demo.$$ /tmp/seed_demo2.$$
echo "demo with change rc=$rc1 (want !=0); without rc=$rc2 (want 0)"
[ $rc1 -ne 0 ] && [ $rc2 -eq 0 ] && echo "SEED CONFIRMED $P $L" || echo "SEED NOT CONFIRMED $P $L"
