#!/usr/bin/env python3
"""Regenerates /verif/MANIFEST.json from checks.json + the per-property texts below."""
import json, os
V = '/verif'
checks = json.load(open(f'{V}/checks.json'))
ENV = 'GOFLAGS=-mod=mod GOPROXY=off GOSUMDB=off GOTOOLCHAIN=local'
TEXT = json.load(open(f'{V}/tools/manifest_texts.json'))
props = [json.loads(l)['id'] for l in open(f'{V}/properties.jsonl')]
m = {
 "version": 1,
 "setup_cmd": f"cd /verif/gosx && {ENV} go build -o /verif/bin/gosx ./cmd/gosx",
 "hooks": {
  "guard": "verif",
  "enable": "no hook is compiled into /repo: harnesses enter through go/packages overlays (engine) and `go test -c -overlay` (native replay); the build tag `verif` is reserved and unused",
  "baseline_off_cmd": f"cd /repo && {ENV} go test -vet=off -count=1 ./...",
  "source_commits": [],
  "add_only": True
 },
 "engines": [{
  "name": "gosx", "path": "/verif/gosx",
  "serves_properties": [p for p in props if p in checks],
  "kind_free_text": "symbolic executor for Go SSA (fork of x/tools go/ssa/interp): symbolic scalars as SMT terms, concrete heap shape, stateless path forking, one z3 -in per worker; counterexamples replayed natively through go test -c -overlay"
 }],
 "checks": [],
 "not_applicable": [],
 "notes": TEXT.get("_notes", "")
}
for p in props:
    t = TEXT.get(p, {})
    if p in checks:
        m["checks"].append({
         "property_id": p,
         "quick_cmd": f"/verif/bin/gosx check -p {p} -tier quick",
         "thorough_cmd": f"/verif/bin/gosx check -p {p} -tier thorough",
         "evidence_file": f"/verif/evidence/{p}.json",
         "replay_cmd_template": "/verif/bin/gosx replay {path}",
         "engine": "gosx",
         "level_claimed": {"category": checks[p].get("level", "model_checking"), "text": t.get("text", ""), "design_ref": t.get("design_ref", f"DESIGN.md §5 {p}")},
         "level_note": t.get("note", ""),
         "technique": t.get("technique", "bounded symbolic execution of the Go SSA of the real functions; path conditions and assertions discharged by z3 (SMT-LIB2, bit-vectors + linear arithmetic); counterexamples replayed natively")
        })
    else:
        m["not_applicable"].append({"property_id": p, "reason": t.get("na_reason", "check not built yet in this round; see DESIGN.md §9")})
json.dump(m, open(f'{V}/MANIFEST.json', 'w'), indent=1)
print("claimed:", [c["property_id"] for c in m["checks"]])
