#!/opt/veriftools/pyvenv/bin/python3
import json, jsonschema, sys, glob
jsonschema.validate(json.load(open('/verif/MANIFEST.json')), json.load(open('/root/.vp/MANIFEST.schema.json')))
print('manifest ok')
es = json.load(open('/root/.vp/EVIDENCE.schema.json'))
for f in sorted(glob.glob('/verif/evidence/*.json')):
    try:
        jsonschema.validate(json.load(open(f)), es); print(f, 'ok')
    except Exception as e:
        print(f, 'INVALID', str(e)[:300])
