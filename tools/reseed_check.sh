#!/bin/bash
# usage: reseed_check.sh <seeddir-name> [tier]   e.g. C20-A
S=$1; P=${S%%-*}; T=${2:-quick}
D=/tmp/rs_$S
git -C /repo worktree add --detach $D HEAD >/dev/null 2>&1
if git -C $D apply /verif/seeded/$S/patch.diff 2>/dev/null; then
  out=$(GOSX_REPO=$D /verif/bin/gosx check -p $P -tier $T -no-evidence -j 8 2>&1 | grep -E "^(OK|VIOLATION|INCONCL)" | head -1 | cut -c1-80)
  echo "$S: $out"
else
  echo "$S: patch does not apply"
fi
git -C /repo worktree remove --force $D
