#!/bin/bash
# usage: seed_check.sh <patchfile> <prop> [tier] [extra gosx args]  — apply a seeded change to /repo, run the check, undo.
PATCH=$1; P=$2; TIER=${3:-quick}; shift 3
[ -n "$(git -C /repo status --porcelain)" ] && { echo "/repo not clean"; exit 2; }
git -C /repo apply $PATCH || exit 2
/verif/bin/gosx check -p $P -tier $TIER -no-evidence "$@" > /tmp/seedcheck.$$ 2>&1; rc=$?
git -C /repo checkout -- .
grep -E "^(VIOLATION|OK|INCONCLUSIVE|PROBLEM|KNOWN|UNCONFIRMED)" /tmp/seedcheck.$$ | head -8
grep -A1 "^VIOLATION" /tmp/seedcheck.$$ | grep harness= | sort | uniq -c | head -5
rm -f /tmp/seedcheck.$$
echo "exit=$rc"
